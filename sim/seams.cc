// Link-time seams: allocator (--wrap), named files (--wrap=fopen -> fopencookie on
// an in-memory file system), error callback sink, sanitizer hooks.
#include "core.h"
#include <elf.h>
#include <fcntl.h>
#include <unistd.h>
#include <sys/mman.h>
#include <sys/stat.h>
#include <unordered_map>
#include <algorithm>

SimState g_sim;

// ------------------------------------------------------------------ domain lookup
// Allocations made by libyaml all pass through yaml_malloc / yaml_realloc /
// yaml_strdup (api.c).  Their address ranges are read from our own symbol table.
struct Range { uintptr_t lo, hi; };
static std::vector<Range> *g_yaml_ranges;

static void load_yaml_ranges()
{
    g_yaml_ranges = new std::vector<Range>();
    int fd = open("/proc/self/exe", O_RDONLY);
    if (fd < 0) return;
    struct stat st;
    if (fstat(fd, &st) != 0) { close(fd); return; }
    void *m = mmap(nullptr, st.st_size, PROT_READ, MAP_PRIVATE, fd, 0);
    close(fd);
    if (m == MAP_FAILED) return;
    const char *base = (const char *)m;
    const Elf64_Ehdr *eh = (const Elf64_Ehdr *)base;
    const Elf64_Shdr *sh = (const Elf64_Shdr *)(base + eh->e_shoff);
    // load bias: executable may be PIE
    extern char __executable_start;
    uintptr_t bias = 0;
    if (eh->e_type == ET_DYN) bias = (uintptr_t)&__executable_start;
    for (int k = 0; k < eh->e_shnum; ++k) {
	if (sh[k].sh_type != SHT_SYMTAB) continue;
	const Elf64_Sym *sym = (const Elf64_Sym *)(base + sh[k].sh_offset);
	size_t n = sh[k].sh_size / sizeof(Elf64_Sym);
	const char *str = base + sh[sh[k].sh_link].sh_offset;
	for (size_t j = 0; j < n; ++j) {
	    const char *name = str + sym[j].st_name;
	    if (ELF64_ST_TYPE(sym[j].st_info) != STT_FUNC || sym[j].st_size == 0) continue;
	    // every function of libyaml (static ones included) is named yaml_*
	    if (strncmp(name, "yaml_", 5) != 0) continue;
	    g_yaml_ranges->push_back(Range{bias + sym[j].st_value, bias + sym[j].st_value + sym[j].st_size});
	}
    }
    munmap(m, st.st_size);
    std::sort(g_yaml_ranges->begin(), g_yaml_ranges->end(), [](const Range &a, const Range &b) { return a.lo < b.lo; });
}
static inline bool is_yaml_pc(void *pc)
{
    if (!g_yaml_ranges) return false;
    uintptr_t p = (uintptr_t)pc;
    size_t lo = 0, hi = g_yaml_ranges->size();
    while (lo < hi) {
	size_t mid = (lo + hi) / 2;
	const Range &r = (*g_yaml_ranges)[mid];
	if (p < r.lo) hi = mid;
	else if (p >= r.hi) lo = mid + 1;
	else return true;
    }
    return false;
}

// ------------------------------------------------------------------ ledger
static std::unordered_map<void *, LeakInfo> *g_ledger;
static long g_serial = 0;
static std::unordered_map<void *, LeakInfo> &ledger()
{
    if (!g_ledger) g_ledger = new std::unordered_map<void *, LeakInfo>();
    return *g_ledger;
}
static size_t g_live_bytes = 0;	// bytes in live blocks of both domains (the simulated machine's memory in use)
void ledger_reset() { ledger().clear(); g_serial = 0; g_live_bytes = 0; }
size_t ledger_live() { return ledger().size(); }
size_t ledger_mark() { return (size_t)g_serial; }
std::vector<LeakInfo> ledger_dump()
{
    std::vector<LeakInfo> v;
    for (auto &p : ledger()) v.push_back(p.second);
    std::sort(v.begin(), v.end(), [](const LeakInfo &a, const LeakInfo &b) { return a.serial < b.serial; });
    return v;
}
// blocks libyaml allocated during an operation in which one of its own allocations was failed:
// how libyaml cleans up after its own out-of-memory condition is not libvna's behaviour
size_t ledger_forgive_yaml(long op)
{
    size_t n = 0;
    for (auto it = ledger().begin(); it != ledger().end();) {
	if (it->second.domain == 1 && it->second.op == op) { g_live_bytes -= std::min(g_live_bytes, it->second.size); it = ledger().erase(it); ++n; }
	else ++it;
    }
    return n;
}
static inline void ledger_add(void *p, size_t n, int domain, void *pc)
{
    if (!p) return;
    LeakInfo li{n, domain, g_sim.op_index, pc, ++g_serial};
    auto it = ledger().find(p);
    if (it != ledger().end()) g_live_bytes -= std::min(g_live_bytes, it->second.size);
    ledger()[p] = li;
    g_live_bytes += n;
}
static inline void ledger_del(void *p)
{
    if (!p || !g_ledger) return;
    auto it = g_ledger->find(p);
    if (it == g_ledger->end()) return;
    g_live_bytes -= std::min(g_live_bytes, it->second.size);
    g_ledger->erase(it);
}

extern "C" int __sanitizer_symbolize_pc(void *pc, const char *fmt, char *out, size_t len) __attribute__((weak));
std::string symbolize_pc(void *pc)
{
    char buf[512];
    buf[0] = 0;
    if (__sanitizer_symbolize_pc) {
	__sanitizer_symbolize_pc(pc, "%f", buf, sizeof buf);
	return buf;
    }
    snprintf(buf, sizeof buf, "%p", pc);
    return buf;
}

// ------------------------------------------------------------------ allocator wraps
// decide(): 0 = proceed, 1 = fail.  Counts the allocation in its domain.
static void trace_fail(void *pc, const char *dom)
{
    static int on = -1;
    if (on < 0) on = getenv("VSIM_TRACE_ALLOC") != nullptr;
    if (!on) return;
    int depth = g_sim.in_lib;
    g_sim.in_lib = 0;
    fprintf(stderr, "injected %s allocation failure #%ld in %s\n", dom, dom[0] == 'y' ? g_sim.n_yaml : g_sim.n_vna, symbolize_pc(pc).c_str());
    g_sim.in_lib = depth;
}
// The simulated machine has SIM_RAM bytes for one block: a library request above that is
// refused like a real allocator refuses it (ENOMEM), without counting as an injected fault.
static const size_t SIM_RAM = (size_t)256 << 20;
// ... and SIM_RAM_TOTAL bytes in all: a file that announces 65536 frequencies of a 1001-port network asks for 16 MB a
// thousand times over; the machine runs out, cleanly, instead of the run timing out
static const size_t SIM_RAM_TOTAL = (size_t)1 << 30;
static inline int decide(void *pc, int *domain, size_t want = 0)
{
    if (g_sim.in_lib <= 0) { *domain = -1; return 0; }
    // (and a million live blocks: a calibration file announcing 1001 x 7000 error terms asks for seven million small vectors)
    if (want > SIM_RAM || g_live_bytes + want > SIM_RAM_TOTAL || (g_ledger && g_ledger->size() > 1000000)) { *domain = 0; ++g_sim.n_toobig; return 1; }
    if (is_yaml_pc(pc)) {
	*domain = 1;
	++g_sim.n_yaml; ++g_sim.total_yaml;
	if (g_sim.fail_yaml && g_sim.n_yaml == g_sim.fail_yaml) { ++g_sim.fired_yaml; trace_fail(pc, "yaml"); return 1; }
	return 0;
    }
    *domain = 0;
    ++g_sim.n_vna; ++g_sim.total_vna;
    if (g_sim.fail_vna && (g_sim.n_vna == g_sim.fail_vna ||
		(g_sim.fail_vna_sticky && g_sim.n_vna > g_sim.fail_vna))) {
	++g_sim.fired_vna;
	trace_fail(pc, "vna");
	return 1;
    }
    return 0;
}

extern "C" {
void *__real_malloc(size_t);
void *__real_calloc(size_t, size_t);
void *__real_realloc(void *, size_t);
void __real_free(void *);
char *__real_strdup(const char *);
char *__real_strndup(const char *, size_t);
int __real_vasprintf(char **, const char *, va_list);
FILE *__real_fopen(const char *, const char *);

void *__wrap_malloc(size_t n)
{
    int dom;
    void *pc = __builtin_return_address(0);
    if (decide(pc, &dom, n)) { errno = ENOMEM; return nullptr; }
    void *p = __real_malloc(n);
    if (dom >= 0) ledger_add(p, n, dom, pc);
    return p;
}
void *__wrap_calloc(size_t a, size_t b)
{
    int dom;
    void *pc = __builtin_return_address(0);
    size_t tot;
    if (__builtin_mul_overflow(a, b, &tot)) tot = (size_t)-1;
    if (decide(pc, &dom, tot)) { errno = ENOMEM; return nullptr; }
    void *p = __real_calloc(a, b);
    if (dom >= 0) ledger_add(p, a * b, dom, pc);
    return p;
}
void *__wrap_realloc(void *old, size_t n)
{
    int dom;
    void *pc = __builtin_return_address(0);
    if (decide(pc, &dom, n)) { errno = ENOMEM; return nullptr; }
    // keep the owner of a block that is merely resized
    LeakInfo keep{0, dom, g_sim.op_index, pc, 0};
    bool had = false;
    if (old && g_ledger) {
	auto it = g_ledger->find(old);
	if (it != g_ledger->end()) { keep = it->second; had = true; g_live_bytes -= std::min(g_live_bytes, keep.size); g_ledger->erase(it); }
    }
    void *p = __real_realloc(old, n);
    if (p == nullptr) {
	if (had && n != 0) { ledger()[old] = keep; g_live_bytes += keep.size; }
	return p;
    }
    if (had) { keep.size = n; ledger()[p] = keep; g_live_bytes += n; }
    else if (dom >= 0) ledger_add(p, n, dom, pc);
    return p;
}
void __wrap_free(void *p)
{
    ledger_del(p);
    __real_free(p);
}
char *__wrap_strdup(const char *s)
{
    int dom;
    void *pc = __builtin_return_address(0);
    if (decide(pc, &dom)) { errno = ENOMEM; return nullptr; }
    char *p = __real_strdup(s);
    if (dom >= 0) ledger_add(p, strlen(s) + 1, dom, pc);
    return p;
}
char *__wrap_strndup(const char *s, size_t n)
{
    int dom;
    void *pc = __builtin_return_address(0);
    if (decide(pc, &dom)) { errno = ENOMEM; return nullptr; }
    char *p = __real_strndup(s, n);
    if (dom >= 0) ledger_add(p, n + 1, dom, pc);
    return p;
}
int __wrap_vasprintf(char **out, const char *fmt, va_list ap)
{
    int dom;
    void *pc = __builtin_return_address(0);
    if (decide(pc, &dom)) { errno = ENOMEM; *out = nullptr; return -1; }
    int rc = __real_vasprintf(out, fmt, ap);
    if (rc >= 0 && dom >= 0) ledger_add(*out, (size_t)rc + 1, dom, pc);
    return rc;
}
int __wrap_asprintf(char **out, const char *fmt, ...)
{
    int dom;
    void *pc = __builtin_return_address(0);
    if (decide(pc, &dom)) { errno = ENOMEM; *out = nullptr; return -1; }
    va_list ap;
    va_start(ap, fmt);
    int rc = __real_vasprintf(out, fmt, ap);
    va_end(ap);
    if (rc >= 0 && dom >= 0) ledger_add(*out, (size_t)rc + 1, dom, pc);
    return rc;
}
} // extern "C"

// ------------------------------------------------------------------ simulated files
static std::map<std::string, std::string> *g_fs;
std::map<std::string, std::string> &simfs()
{
    if (!g_fs) g_fs = new std::map<std::string, std::string>();
    return *g_fs;
}

struct Cookie {
    std::string name;
    bool writing = false;
    std::string rdata;
    size_t pos = 0;
    FileFaults ff;
    char *buf = nullptr;
};

static ssize_t ck_read(void *vc, char *buf, size_t size)
{
    Cookie *c = (Cookie *)vc;
    if (c->writing) { errno = EBADF; return -1; }
    size_t limit = c->rdata.size();
    if (c->ff.read_eof_at >= 0 && (size_t)c->ff.read_eof_at < limit) limit = (size_t)c->ff.read_eof_at;
    if (c->ff.read_eio_at >= 0 && c->pos >= (size_t)c->ff.read_eio_at && (size_t)c->ff.read_eio_at <= limit) {
	++g_sim.fired_read_eio;
	errno = EIO;
	return -1;
    }
    if (c->pos >= limit) {
	if (limit < c->rdata.size()) ++g_sim.fired_read_eof;
	return 0;
    }
    size_t n = limit - c->pos;
    if (n > size) n = size;
    if (c->ff.read_frag > 0 && n > (size_t)c->ff.read_frag) n = (size_t)c->ff.read_frag;
    if (c->ff.read_eio_at >= 0 && c->pos < (size_t)c->ff.read_eio_at && c->pos + n > (size_t)c->ff.read_eio_at)
	n = (size_t)c->ff.read_eio_at - c->pos;
    memcpy(buf, c->rdata.data() + c->pos, n);
    c->pos += n;
    return (ssize_t)n;
}
static ssize_t ck_write(void *vc, const char *buf, size_t size)
{
    Cookie *c = (Cookie *)vc;
    if (!c->writing) { errno = EBADF; return 0; }
    std::string &data = simfs()[c->name];
    size_t n = size;
    if (c->ff.write_err_at >= 0) {
	if (c->pos >= (size_t)c->ff.write_err_at) {
	    ++g_sim.fired_write_err;
	    errno = (int)c->ff.write_errno;
	    return 0;
	}
	if (c->pos + n > (size_t)c->ff.write_err_at) {
	    // the device accepts the bytes up to the fault offset (a torn write); stdio treats the
	    // short count of a cookie stream as an error without retrying
	    n = (size_t)c->ff.write_err_at - c->pos;
	    ++g_sim.fired_write_err;
	    errno = (int)c->ff.write_errno;
	}
    }
    data.append(buf, n);
    c->pos += n;
    return (ssize_t)n;
}
static int ck_close(void *vc)
{
    Cookie *c = (Cookie *)vc;
    bool err = c->ff.close_err;
    // the stdio buffer must outlive fclose's final flush: it is released here
    char *b = c->buf;
    delete c;
    // buffer is freed by simfs_release_buffers() after fclose returned
    extern void simfs_defer_free(char *);
    if (b) simfs_defer_free(b);
    if (err) { ++g_sim.fired_close_err; errno = EIO; return -1; }
    return 0;
}
static std::vector<char *> *g_deferred;
void simfs_defer_free(char *b)
{
    if (!g_deferred) g_deferred = new std::vector<char *>();
    g_deferred->push_back(b);
}
static void simfs_release_buffers()
{
    if (!g_deferred) return;
    for (char *b : *g_deferred) delete[] b;
    g_deferred->clear();
}

FILE *simfs_open(const char *path, const char *mode)
{
    simfs_release_buffers();
    FileFaults ff = g_sim.ff;
    if (ff.open_errno) {
	++g_sim.fired_open;
	errno = ff.open_errno;
	return nullptr;
    }
    bool writing = mode[0] == 'w' || mode[0] == 'a';
    if (!writing) {
	auto it = simfs().find(path);
	if (it == simfs().end()) { errno = ENOENT; return nullptr; }
    }
    Cookie *c = new Cookie();
    c->name = path;
    c->writing = writing;
    c->ff = ff;
    if (writing) {
	if (mode[0] == 'w') simfs()[path].clear();
	c->pos = simfs()[path].size();
	if (mode[0] == 'a') c->pos = 0, c->ff.write_err_at = ff.write_err_at;
    } else {
	c->rdata = simfs()[path];
    }
    cookie_io_functions_t io;
    io.read = ck_read;
    io.write = ck_write;
    io.seek = nullptr;
    io.close = ck_close;
    int saved_in_lib = g_sim.in_lib;
    g_sim.in_lib = 0;	// allocations of the stdio layer are not the library's
    FILE *fp = fopencookie(c, writing ? "w" : "r", io);
    // an unbuffered *write* stream loses the error of a failed write unless the caller checks
    // ferror(); libvna's contract is the fclose result, so write streams are at least 1-byte buffered
    if (writing && ff.bufsize == 0) ff.bufsize = 1;
    if (fp && ff.bufsize >= 0) {
	if (ff.bufsize == 0) setvbuf(fp, nullptr, _IONBF, 0);
	else {
	    c->buf = new char[ff.bufsize];
	    setvbuf(fp, c->buf, _IOFBF, (size_t)ff.bufsize);
	}
    }
    g_sim.in_lib = saved_in_lib;
    if (!fp) { delete c; errno = EMFILE; }
    return fp;
}

extern "C" FILE *__wrap_fopen(const char *path, const char *mode)
{
    if (g_sim.in_lib <= 0) return __real_fopen(path, mode);	// not the library under test (e.g. the coverage runtime writing its counters)
    return simfs_open(path, mode);
}

// ------------------------------------------------------------------ callback sink
extern "C" void sim_error_fn(const char *message, void *arg, vnaerr_category_t category)
{
    int e = errno;
    int depth = g_sim.in_lib;
    g_sim.in_lib = 0;
    g_sim.callbacks.push_back(CallbackRec{(int)category, message ? message : "(null)", e, arg});
    g_sim.in_lib = depth;
    // a real error function prints, and printing changes errno
    errno = g_sim.cb_errno_mode == 1 ? 0 : g_sim.cb_errno_mode == 2 ? ENOTTY : g_sim.cb_errno_mode == 3 ? EINTR : e;
}

// ------------------------------------------------------------------ sanitizer hooks
extern "C" {
void __asan_set_error_report_callback(void (*)(const char *)) __attribute__((weak));
void __ubsan_get_current_report_data(const char **kind, const char **msg, const char **file,
	unsigned *line, unsigned *col, char **addr) __attribute__((weak));

static void asan_report_cb(const char *report)
{
    int depth = g_sim.in_lib;
    g_sim.in_lib = 0;
    if (g_sim.san_errors++ == 0) g_sim.san_report = report ? report : "";
    g_sim.in_lib = depth;
}
void __ubsan_on_report(void)
{
    int depth = g_sim.in_lib;
    g_sim.in_lib = 0;
    if (g_sim.san_errors++ == 0) {
	const char *kind = "", *msg = "", *file = "";
	unsigned line = 0, col = 0;
	char *addr = nullptr;
	if (__ubsan_get_current_report_data)
	    __ubsan_get_current_report_data(&kind, &msg, &file, &line, &col, &addr);
	char buf[1024];
	snprintf(buf, sizeof buf, "UBSAN: %s: %s at %s:%u:%u", kind, msg, file, line, col);
	g_sim.san_report = buf;
    }
    g_sim.in_lib = depth;
}
__attribute__((used)) const char *__asan_default_options()
{
    return "halt_on_error=0:detect_leaks=0:allocator_may_return_null=1:"
	   "max_malloc_fill_size=1048576:malloc_fill_byte=190:free_fill_byte=221:max_free_fill_size=1048576:"
	   "detect_stack_use_after_return=0:handle_abort=0:abort_on_error=0:exitcode=77:"
	   "symbolize=1:external_symbolizer_path=/usr/bin/llvm-symbolizer-14:"
	   "allow_user_segv_handler=1:detect_odr_violation=0";
}
__attribute__((used)) const char *__ubsan_default_options()
{
    return "halt_on_error=0:print_stacktrace=0:report_error_type=1:"
	   "external_symbolizer_path=/usr/bin/llvm-symbolizer-14";
}
} // extern "C"

void seams_init()
{
    load_yaml_ranges();
    if (__asan_set_error_report_callback) __asan_set_error_report_callback(asan_report_cb);
}
