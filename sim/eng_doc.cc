// doc engine: property trees against DocModel (C13), YAML export/import with a
// simulated disk (C14).
#include "core.h"
#include "docmodel.h"
#include "doc_common.h"

// ------------------------------------------------------------------ run
namespace {

struct DocWorld {
    Ctx &c;
    vnaproperty_t *roots[NROOTS] = {nullptr, nullptr, nullptr};
    DNode model[NROOTS];
    std::map<std::string, DNode> files;	// model of what each saved file denotes
    std::set<std::string> files_ok;	// files written by a successful, fault-free export
    bool assert_refused = false;	// C11 clause: a refused modifying call changes nothing
    explicit DocWorld(Ctx &ctx) : c(ctx) {}
};

// take the model from the real tree (where the checked property makes no claim)
static void resync_root(DocWorld &w, int ri)
{
    std::string real = real_digest(w.c, w.roots[ri]);
    if (w.c.violated) return;
    size_t pos = 0;
    DNode n;
    if (!dnode_parse(real, pos, n) || pos != real.size()) { w.c.violate("harness", "resync", "cannot parse digest " + real); return; }
    w.model[ri] = n;
    w.c.count("probe.resync");
}

static void compare_root(DocWorld &w, int ri, const Op &op, const char *what)
{
    if (w.c.violated) return;
    std::string real = real_digest(w.c, w.roots[ri]);
    if (w.c.violated) return;
    std::string want = dnode_digest(w.model[ri]);
    w.c.state(fnv1a(want));
    if (real != want)
	w.c.violate("model", op.k + ":tree",
		strf("%s: root %d differs after %s: real %s, model %s", what, ri, op.k.c_str(), real.c_str(), want.c_str()));
}

static bool errno_ok(int got, const DResult &r)
{
    if (r.err == 0) return true;
    return got == r.err || (r.err_alt && got == r.err_alt);
}

// no-retry mode: a modifying call that failed because of its injected allocation failure is not re-issued.  What
// the tree holds then is not prescribed (only that repeating the call would repair it): the model is re-read from
// the real tree, which walks every node through the public getters, and the history goes on from there.
#define NO_RETRY_FAILED(FN, FAILEDEXPR) \
    if (c.no_retry && sim_alloc_fault_fired() && (FAILEDEXPR)) { \
	if (e_ != ENOMEM) { c.violate("c12", std::string(FN) + ":errno", strf("%s failed under an injected allocation failure with errno %s", FN, errno_name(e_))); return; } \
	c.count("probe.failed_by_fault_not_reissued"); \
	resync_root(w, ri); \
	compare_root(w, ri, op, "re-read after a call that failed for lack of memory"); \
	return; \
    }
static void run_op(DocWorld &w, const Op &op)
{
    Ctx &c = w.c;
    int ri = (int)op.I(0) % NROOTS;
    DescSpec ds = desc_from_op(op);
    std::string desc = render_desc(c, ds);
    if (c.violated) return;
    const char *fmt = "%s";
    std::string arg = desc;
    std::string esc;
    if (ds.as_format) {		// pass the descriptor as the format itself
	for (char ch : desc) { esc += ch; if (ch == '%') esc += '%'; }
	fmt = nullptr;
    }
    c.log("op %s root=%d desc=%s", op.k.c_str(), ri, Json(desc).str().c_str());
    DNode &m = w.model[ri];
    vnaproperty_t **rootp = &w.roots[ri];

    if (op.k == "set") {
	std::string full = ds.as_format ? esc : desc;
	std::string value = ds.value;
	std::string tailtext;
	if (ds.tail == 0) tailtext = "=" + value;
	else if (ds.tail == 1) tailtext = "#";
	else if (ds.tail == 3) tailtext = ds.junk;
	if (ds.as_format) { for (char ch : tailtext) { full += ch; if (ch == '%') full += '%'; } }
	else full += tailtext;
	bool valid = (ds.path.suffix == 0 || ds.path.suffix == 3) && (ds.tail == 0 || ds.tail == 1);
	int rc, e_ = 0;
	{
	    LIB_RETRY(c, &op, "vnaproperty_set", e_, rc != 0, rc = ds.as_format ? vnaproperty_set(rootp, full.c_str()) : vnaproperty_set(rootp, "%s", full.c_str()));
	    c.log(" -> %d errno=%s", rc, rc ? errno_name(e_) : "-");
	    if (c.violated) return;
	    NO_RETRY_FAILED("vnaproperty_set", rc != 0)
	    if (valid) {
		if (rc != 0) { c.violate("model", "set:rc", strf("valid set %s failed, errno %s", Json(full).str().c_str(), errno_name(e_))); return; }
	    } else {
		if (rc != -1) { c.violate("model", "set:rc", strf("malformed set %s returned %d", Json(full).str().c_str(), rc)); return; }
		if (e_ != EINVAL) { c.violate("model", "set:errno", strf("malformed set %s: errno %s, expected EINVAL", Json(full).str().c_str(), errno_name(e_))); return; }
	    }
	}
	if (valid) {
	    DResult r = dmodel_descend(m, ds.path, true);
	    r.node->clear();
	    if (ds.tail == 0) { r.node->k = 1; r.node->s = value; }
	} else c.count("probe.set_refused");
	if (!valid && !w.assert_refused) resync_root(w, ri);
	compare_root(w, ri, op, valid ? "set" : "refused set (C11: tree must be unchanged)");
	return;
    }
    if (op.k == "setsub") {
	bool valid = ds.tail != 3;
	std::string full = (ds.as_format ? esc : desc) + (ds.tail == 3 ? ds.junk : "");
	vnaproperty_t **anchor;
	int e_ = 0;
	{
	    LIB_RETRY(c, &op, "vnaproperty_set_subtree", e_, anchor == nullptr, anchor = ds.as_format ? vnaproperty_set_subtree(rootp, full.c_str()) : vnaproperty_set_subtree(rootp, "%s", full.c_str()));
	    c.log(" -> %s errno=%s", anchor ? "anchor" : "NULL", anchor ? "-" : errno_name(e_));
	    if (c.violated) return;
	    NO_RETRY_FAILED("vnaproperty_set_subtree", anchor == nullptr)
	    if (valid && !anchor) { c.violate("model", "setsub:rc", strf("set_subtree %s failed, errno %s", Json(full).str().c_str(), errno_name(e_))); return; }
	    if (!valid) {
		if (anchor) { c.violate("model", "setsub:rc", strf("set_subtree with trailing tokens %s succeeded", Json(full).str().c_str())); return; }
		if (e_ != EINVAL) { c.violate("model", "setsub:errno", strf("set_subtree %s: errno %s, expected EINVAL", Json(full).str().c_str(), errno_name(e_))); return; }
	    }
	}
	if (valid) {
	    DResult r = dmodel_descend(m, ds.path, true);
	    std::string real = real_digest(c, *anchor);
	    std::string want = dnode_digest(*r.node);
	    if (!c.violated && real != want) { c.violate("model", "setsub:anchor", strf("anchor of %s holds %s, model %s", Json(full).str().c_str(), real.c_str(), want.c_str())); return; }
	    // the returned address can be used with the modifying functions
	    if (op.I(10)) {
		int rc;
		{ LibCall lc(c); rc = vnaproperty_set(anchor, ".=%s", ds.value.c_str()); lc.done(); }
		if (rc != 0) { c.violate("model", "setsub:use", "set through the returned anchor failed"); return; }
		r.node->clear(); r.node->k = 1; r.node->s = ds.value;
	    }
	} else c.count("probe.setsub_refused");
	if (!valid && !w.assert_refused) resync_root(w, ri);
	compare_root(w, ri, op, valid ? "set_subtree" : "refused set_subtree (C11: tree must be unchanged)");
	return;
    }
    if (op.k == "del") {
	std::string full = (ds.as_format ? esc : desc) + (ds.tail == 3 ? ds.junk : "");
	// model first (on a copy, committed only if the call is valid)
	DNode copy = m;
	DResult r = dmodel_descend(copy, ds.path, false);
	int want_err = 0, want_alt = r.err_alt;
	if (r.err) want_err = r.err;
	else if (ds.tail == 3) want_err = EINVAL;
	if (!want_err) {
	    if (ds.path.suffix == 0 && !ds.path.el.empty()) {
		const DElem &last = ds.path.el.back();
		if (last.t == 0) { r.coll->keys.erase(r.coll->keys.begin() + r.index); r.coll->vals.erase(r.coll->vals.begin() + r.index); }
		else r.coll->vals.erase(r.coll->vals.begin() + r.index);
	    } else r.node->clear();
	}
	int rc, e_ = 0;
	{
	    LIB_RETRY(c, &op, "vnaproperty_delete", e_, rc != 0, rc = ds.as_format ? vnaproperty_delete(rootp, full.c_str()) : vnaproperty_delete(rootp, "%s", full.c_str()));
	    c.log(" -> %d errno=%s", rc, rc ? errno_name(e_) : "-");
	    if (c.violated) return;
	    NO_RETRY_FAILED("vnaproperty_delete", rc != 0)
	    if (!want_err && rc != 0) { c.violate("model", "del:rc", strf("delete %s failed (errno %s), model expects success", Json(full).str().c_str(), errno_name(e_))); return; }
	    if (want_err) {
		if (rc != -1) { c.violate("model", "del:rc", strf("delete %s returned %d, model expects failure %s", Json(full).str().c_str(), rc, errno_name(want_err))); return; }
		DResult rr; rr.err = want_err; rr.err_alt = want_alt;
		if (!errno_ok(e_, rr)) { c.violate("model", "del:errno", strf("delete %s: errno %s, expected %s", Json(full).str().c_str(), errno_name(e_), errno_name(want_err))); return; }
		c.count("probe.del_refused");
	    }
	}
	if (!want_err) m = copy;
	compare_root(w, ri, op, want_err ? "refused delete" : "delete");
	return;
    }
    if (op.k == "get" || op.k == "type" || op.k == "count" || op.k == "keys" || op.k == "getsub") {
	std::string full = (ds.as_format ? esc : desc) + (ds.tail == 3 ? ds.junk : "");
	DResult r = dmodel_descend(m, ds.path, false);
	int want_err = r.err;
	if (!want_err && ds.tail == 3) { want_err = EINVAL; }
	const DNode *n = want_err ? nullptr : r.node;
	const vnaproperty_t *root = *rootp;
	int e_ = 0;
	if (op.k == "get") {
	    const char *v = nullptr;
	    std::string got;
	    LIB_RETRY(c, &op, "vnaproperty_get", e_, v == nullptr, v = ds.as_format ? vnaproperty_get(root, full.c_str()) : vnaproperty_get(root, "%s", full.c_str()); got = v ? v : "");
	    if (c.no_retry && sim_alloc_fault_fired() && (v == nullptr) && e_ == ENOMEM) { c.count("probe.failed_by_fault_not_reissued"); return; }	// (a query that failed for lack of memory changed nothing)
	    c.log(" -> %s", v ? Json(got).str().c_str() : "NULL");
	    if (c.violated) return;
	    if (n && n->k == 1) {
		if (!v || got != n->s) c.violate("model", "get:value", strf("get %s returned %s, model %s", Json(full).str().c_str(), v ? Json(got).str().c_str() : "NULL", Json(n->s).str().c_str()));
	    } else {
		if (v) c.violate("model", "get:value", strf("get %s returned %s, model expects NULL", Json(full).str().c_str(), Json(got).str().c_str()));
		else if (want_err) { DResult rr = r; rr.err = want_err; if (!errno_ok(e_, rr)) c.violate("model", "get:errno", strf("get %s: errno %s, expected %s", Json(full).str().c_str(), errno_name(e_), errno_name(want_err))); }
		else if (n && n->k >= 2 && e_ != EINVAL) c.violate("model", "get:errno", strf("get %s on a non-scalar: errno %s, expected EINVAL", Json(full).str().c_str(), errno_name(e_)));
	    }
	} else if (op.k == "type") {
	    int t = -1;
	    LIB_RETRY(c, &op, "vnaproperty_type", e_, t == -1, t = ds.as_format ? vnaproperty_type(root, full.c_str()) : vnaproperty_type(root, "%s", full.c_str()));
	    if (c.no_retry && sim_alloc_fault_fired() && (t == -1) && e_ == ENOMEM) { c.count("probe.failed_by_fault_not_reissued"); return; }	// (a query that failed for lack of memory changed nothing)
	    c.log(" -> %d", t);
	    if (c.violated) return;
	    int want = !n ? -1 : n->k == 1 ? 's' : n->k == 2 ? 'm' : n->k == 3 ? 'l' : -1;
	    if (t != want) c.violate("model", "type:value", strf("type %s returned %d, model %d", Json(full).str().c_str(), t, want));
	    else if (want_err) { DResult rr = r; rr.err = want_err; if (!errno_ok(e_, rr)) c.violate("model", "type:errno", strf("type %s: errno %s, expected %s", Json(full).str().c_str(), errno_name(e_), errno_name(want_err))); }
	} else if (op.k == "count") {
	    int t = -1;
	    LIB_RETRY(c, &op, "vnaproperty_count", e_, t == -1, t = ds.as_format ? vnaproperty_count(root, full.c_str()) : vnaproperty_count(root, "%s", full.c_str()));
	    if (c.no_retry && sim_alloc_fault_fired() && (t == -1) && e_ == ENOMEM) { c.count("probe.failed_by_fault_not_reissued"); return; }	// (a query that failed for lack of memory changed nothing)
	    c.log(" -> %d", t);
	    if (c.violated) return;
	    int want = (n && n->k >= 2) ? (int)n->vals.size() : -1;
	    if (t != want) c.violate("model", "count:value", strf("count %s returned %d, model %d", Json(full).str().c_str(), t, want));
	    else if (want_err) { DResult rr = r; rr.err = want_err; if (!errno_ok(e_, rr)) c.violate("model", "count:errno", strf("count %s: errno %s, expected %s", Json(full).str().c_str(), errno_name(e_), errno_name(want_err))); }
	    else if (n && n->k == 1 && e_ != EINVAL) c.violate("model", "count:errno", strf("count %s on a scalar: errno %s, expected EINVAL", Json(full).str().c_str(), errno_name(e_)));
	} else if (op.k == "keys") {
	    const char **kv = nullptr;
	    std::vector<std::string> got;
	    LIB_RETRY(c, &op, "vnaproperty_keys", e_, kv == nullptr, kv = ds.as_format ? vnaproperty_keys(root, full.c_str()) : vnaproperty_keys(root, "%s", full.c_str()); got.clear(); if (kv) for (const char **p = kv; *p; ++p) got.push_back(*p));
	    if (c.no_retry && sim_alloc_fault_fired() && (kv == nullptr) && e_ == ENOMEM) { c.count("probe.failed_by_fault_not_reissued"); return; }	// (a query that failed for lack of memory changed nothing)
	    free((void *)kv);
	    c.log(" -> %s n=%zu", kv ? "vector" : "NULL", got.size());
	    if (c.violated) return;
	    if (n && n->k == 2) {
		if (!kv || got != n->keys) c.violate("model", "keys:value", strf("keys %s: wrong key vector (%zu keys, model %zu)", Json(full).str().c_str(), got.size(), n->keys.size()));
	    } else {
		if (kv) c.violate("model", "keys:value", strf("keys %s returned a vector, model expects NULL", Json(full).str().c_str()));
		else if (want_err) { DResult rr = r; rr.err = want_err; if (!errno_ok(e_, rr)) c.violate("model", "keys:errno", strf("keys %s: errno %s, expected %s", Json(full).str().c_str(), errno_name(e_), errno_name(want_err))); }
		else if (n && n->k != 0 && e_ != EINVAL) c.violate("model", "keys:errno", strf("keys %s on a non-map: errno %s, expected EINVAL", Json(full).str().c_str(), errno_name(e_)));
	    }
	} else {
	    vnaproperty_t *sub = nullptr;
	    // (a NULL result is also the legitimate answer for a null node: then errno stays 0 and nothing fired)
	    LIB_RETRY(c, &op, "vnaproperty_get_subtree", e_, sub == nullptr, errno = 0; sub = ds.as_format ? vnaproperty_get_subtree(root, full.c_str()) : vnaproperty_get_subtree(root, "%s", full.c_str()));
	    if (c.no_retry && sim_alloc_fault_fired() && (sub == nullptr) && e_ == ENOMEM) { c.count("probe.failed_by_fault_not_reissued"); return; }	// (a query that failed for lack of memory changed nothing)
	    c.log(" -> %s", sub ? "node" : "NULL");
	    if (c.violated) return;
	    if (n) {
		std::string real = real_digest(c, sub);
		std::string want = dnode_digest(*n);
		if (!c.violated && real != want) c.violate("model", "getsub:value", strf("get_subtree %s holds %s, model %s", Json(full).str().c_str(), real.c_str(), want.c_str()));
	    } else {
		if (sub) c.violate("model", "getsub:value", strf("get_subtree %s returned a node, model expects failure", Json(full).str().c_str()));
		else { DResult rr = r; rr.err = want_err; if (!errno_ok(e_, rr)) c.violate("model", "getsub:errno", strf("get_subtree %s: errno %s, expected %s", Json(full).str().c_str(), errno_name(e_), errno_name(want_err))); }
	    }
	}
	if (want_err) c.count("probe.query_refused");
	// non-modifying calls never change the tree
	compare_root(w, ri, op, "non-modifying call");
	return;
    }
    if (op.k == "copy") {
	int si = (int)op.I(8) % NROOTS;
	if (si == ri) si = (ri + 1) % NROOTS;
	vnaproperty_t **anchor = rootp;
	DNode *mdst = &m;
	if (!ds.path.el.empty()) {
	    {
		LibCall lc(c);
		anchor = vnaproperty_set_subtree(rootp, "%s", desc.c_str());
		lc.done();
	    }
	    if (!anchor) { c.violate("model", "copy:anchor", "set_subtree for the copy destination failed"); return; }
	    DResult r = dmodel_descend(m, ds.path, true);
	    mdst = r.node;
	}
	int rc, e_ = 0;
	LIB_RETRY(c, &op, "vnaproperty_copy", e_, rc != 0, rc = vnaproperty_copy(anchor, w.roots[si]));
	c.log(" -> %d", rc);
	if (c.violated) return;
	NO_RETRY_FAILED("vnaproperty_copy", rc != 0)
	if (rc != 0) { c.violate("model", "copy:rc", "vnaproperty_copy failed"); return; }
	*mdst = w.model[si];
	compare_root(w, ri, op, "copy (destination)");
	compare_root(w, si, op, "copy (source)");
	return;
    }
    if (op.k == "quote") {
	// quote_key(k) used as a descriptor component addresses exactly key k
	const std::string &key = op.S(0);
	if (key.empty()) return;
	char *q;
	{ int e_ = 0; LIB_RETRY(c, &op, "vnaproperty_quote_key", e_, q == nullptr, q = vnaproperty_quote_key(key.c_str())); if (c.no_retry && sim_alloc_fault_fired() && q == nullptr && e_ == ENOMEM) { c.count("probe.failed_by_fault_not_reissued"); return; } }
	if (c.violated) return;
	if (!q) { c.violate("model", "quote:rc", "quote_key returned NULL"); return; }
	std::string qs = q;
	free(q);
	c.log(" quote %s -> %s", Json(key).str().c_str(), Json(qs).str().c_str());
	vnaproperty_t *tmp = nullptr;
	int rc;
	const std::string &k2 = op.S(1);
	std::string d2 = qs;
	if (!k2.empty()) {
	    char *q2;
	    { LibCall lc(c); q2 = vnaproperty_quote_key(k2.c_str()); lc.done(); }
	    if (!q2) { c.violate("model", "quote:rc", "quote_key returned NULL"); return; }
	    d2 = op.I(1) ? std::string(q2) + "." + qs : qs + "." + q2;
	    free(q2);
	}
	{ LibCall lc(c); rc = vnaproperty_set(&tmp, "%s=v", d2.c_str()); lc.done(); }
	DNode want;
	{
	    DPath p;
	    DElem e1; e1.key = key;
	    if (k2.empty()) p.el = {e1};
	    else { DElem e2; e2.key = k2; if (op.I(1)) p.el = {e2, e1}; else p.el = {e1, e2}; }
	    DResult r = dmodel_descend(want, p, true);
	    r.node->k = 1; r.node->s = "v";
	}
	if (rc != 0) c.violate("model", "quote:set", strf("set through quoted key %s failed", Json(d2).str().c_str()));
	else {
	    std::string real = real_digest(c, tmp), wd = dnode_digest(want);
	    if (!c.violated && real != wd) c.violate("model", "quote:key", strf("quoted key %s addresses %s, expected %s", Json(d2).str().c_str(), real.c_str(), wd.c_str()));
	    if (!c.violated) {
		const char *v;
		{ LibCall lc(c); v = vnaproperty_get(tmp, "%s", d2.c_str()); lc.done(); }
		if (!v || strcmp(v, "v")) c.violate("model", "quote:get", strf("get through quoted key %s failed", Json(d2).str().c_str()));
	    }
	}
	{ LibCall lc(c); vnaproperty_delete(&tmp, "."); lc.done(); }
	return;
    }
    if (op.k == "export") {
	std::string name = op.S(0).empty() ? "p.yaml" : op.S(0);
	FILE *fp;
	int pend_err = 0; bool pend_alloc = false;
	for (int attempt = 0; attempt < 2 && !c.violated; ++attempt) {
	    LibCall lc(c, attempt == 0 ? &op : nullptr);	// stream faults of this op apply to the stream opened here
	    fp = simfs_open(name.c_str(), "w");
	    int rc = -1;
	    bool cb = op.I(1) != 0;
	    if (fp) rc = vnaproperty_export_yaml_to_file(*rootp, fp, name.c_str(), cb ? sim_error_fn : nullptr, nullptr);
	    int e = errno;
	    int in = g_sim.in_lib; g_sim.in_lib = 0;
	    int crc = fp ? fclose(fp) : -1;
	    g_sim.in_lib = in;
	    errno = e;
	    bool fired = sim_fault_fired(), alloc_fired = sim_alloc_fault_fired() && !(g_sim.fired_write_err || g_sim.fired_close_err || g_sim.fired_open);
	    size_t ncb = g_sim.callbacks.size();
	    std::string cbmsg = ncb ? g_sim.callbacks[0].msg : "";
	    lc.done();
	    if (fp) c11_discipline(c, "export", "vnaproperty_export_yaml_to_file", rc != 0, lc.saved_errno, cb, C11_MUST);
	    if (c.violated) return;
	    if (fired && (rc != 0 || crc != 0)) {
		// failed because of the injected fault: reported, and repeatable once the fault is gone
		c.count("probe.export_faulted");
		w.files_ok.erase(name);
		if (rc != 0 && cb && ncb == 0) { c.violate("model", "export:callback", "failed export reported nothing through the callback"); return; }
		fault_failed(c, "vnaproperty_export_yaml_to_file", lc.saved_errno, alloc_fired && rc != 0);
		pend_err = lc.saved_errno; pend_alloc = alloc_fired && rc != 0;
		continue;
	    }
	    if (attempt == 1 && rc == 0 && crc == 0) fault_recovered(c, "vnaproperty_export_yaml_to_file", pend_err, pend_alloc);
	    c.log(" export %s -> %d close=%d size=%zu", name.c_str(), rc, crc, simfs()[name].size());
	    if (rc != 0 || crc != 0) { c.violate("model", "export:rc", strf("fault-free export failed (rc %d, errno %s)", rc, errno_name(lc.saved_errno))); return; }
	    if (ncb) { c.violate("model", "export:callback", "callback on a successful export: " + cbmsg); return; }
	    // (also when a fault fired without making the call fail: success must mean a whole file)
	    if (fired) {
		c.count("probe.export_ok_despite_fault");
		// read the file back at once (the script may overwrite it before anything imports it)
		vnaproperty_t *tmp = nullptr;
		int irc;
		{ LibCall lc2(c); std::string text = simfs()[name]; irc = vnaproperty_import_yaml_from_string(&tmp, text.c_str(), nullptr, nullptr); lc2.done(); }
		std::string back = irc == 0 ? real_digest(c, tmp) : std::string("(does not import)");
		{ LibCall lc2(c); vnaproperty_delete(&tmp, "."); lc2.done(); }
		if (c.violated) return;
		if (back != dnode_digest(m)) { c.violate("model", "export:file", strf("an export that reported success although a stream fault fired left a file of %zu bytes that reads back as %s, the tree is %s", simfs()[name].size(), back.c_str(), dnode_digest(m).c_str())); return; }
	    }
	    w.files[name] = m;
	    w.files_ok.insert(name);
	    c.count("probe.export_ok");
	    break;
	}
	compare_root(w, ri, op, "export");
	return;
    }
    if (op.k == "import_f" || op.k == "import_s") {
	std::string name = op.S(0).empty() ? "p.yaml" : op.S(0);
	if (!simfs().count(name)) return;
	bool cb = op.I(1) != 0;
	bool into_empty = w.roots[ri] == nullptr;
	// importing a document into a tree that already equals it (the same file a second time, a tree's own export) must leave that tree
	bool same_again = !into_empty && w.files_ok.count(name) && dnode_digest(m) == dnode_digest(w.files[name]);
	int rc = -1;
	bool fired = false, storage_fault = false;
	size_t ncb = 0;
	int cat0 = -1;
	int pend_err = 0; bool pend_alloc = false;
	for (int attempt = 0; attempt < 2 && !c.violated; ++attempt) {
	    LibCall lc(c, attempt == 0 ? &op : nullptr);
	    if (attempt > 0) vnaproperty_delete(rootp, ".");	// start the repeated import from the same (empty or not) state: empty
	    if (op.k == "import_f") {
		FILE *fp = simfs_open(name.c_str(), "r");
		rc = -1;
		if (fp) {
		    rc = vnaproperty_import_yaml_from_file(rootp, fp, name.c_str(), cb ? sim_error_fn : nullptr, nullptr);
		    int e = errno;
		    int in = g_sim.in_lib; g_sim.in_lib = 0;
		    fclose(fp);
		    g_sim.in_lib = in;
		    errno = e;
		}
	    } else {
		std::string text = simfs()[name];
		rc = vnaproperty_import_yaml_from_string(rootp, text.c_str(), cb ? sim_error_fn : nullptr, nullptr);
	    }
	    fired = sim_fault_fired();
	    storage_fault = g_sim.fired_read_eio || g_sim.fired_read_eof || g_sim.fired_open;
	    bool alloc_fired = sim_alloc_fault_fired();
	    ncb = g_sim.callbacks.size();
	    std::string cbmsg = ncb ? g_sim.callbacks[0].msg : "";
	    if (ncb) cat0 = g_sim.callbacks[0].category;
	    lc.done();
	    if (op.k == "import_s" || !g_sim.fired_open) c11_discipline(c, "import", "vnaproperty_import_yaml", rc != 0, lc.saved_errno, cb, C11_MUST);
	    if (c.violated) return;
	    // an import that failed because of an allocation fault is repeated once the fault is gone
	    // (into an emptied root, and only when the root was empty to begin with)
	    if (attempt == 0 && fired && !storage_fault && rc != 0 && into_empty) {
		c.count("probe.import_faulted");
		fault_failed(c, "vnaproperty_import_yaml", lc.saved_errno, alloc_fired);
		pend_err = lc.saved_errno; pend_alloc = alloc_fired;
		continue;
	    }
	    if (attempt == 1 && rc == 0) fault_recovered(c, "vnaproperty_import_yaml", pend_err, pend_alloc);
	    c.log(" %s %s -> %d errno=%s", op.k.c_str(), name.c_str(), rc, rc ? errno_name(lc.saved_errno) : "-");
	    if (!fired && w.files_ok.count(name)) {
		if (rc != 0) { c.violate("model", "import:rc", strf("import of a file written by a successful export failed (errno %s%s%s)", errno_name(lc.saved_errno), ncb ? ": " : "", cbmsg.c_str())); return; }
		if (ncb && cat0 != VNAERR_WARNING) { c.violate("model", "import:callback", "callback on a successful import: " + cbmsg); return; }
	    }
	    break;
	}
	if (c.violated) return;
	// a stream that ends early or errors hands the library different (possibly still valid) text;
	// an allocation failure does not: there a call that reports success must have the full effect
	if ((!fired || (rc == 0 && !storage_fault)) && w.files_ok.count(name) && (into_empty || (same_again && !fired))) {
	    if (same_again) c.count("probe.import_again_into_the_same_tree");
	    if (fired) c.count("probe.import_ok_despite_fault");
	    m = w.files[name];
	    c.count("probe.import_ok");
	    c.nontrivial = c.nontrivial || w.files[name].nodes() > 1;
	    compare_root(w, ri, op, "import (C14: tree after import must equal the exported tree)");
	} else {
	    // outcome not predicted (fault fired, damaged file, or populated destination):
	    // the tree only has to stay usable; resynchronise the model from the real tree
	    c.count(fired ? "probe.import_faulted" : "probe.import_unpredicted");
	    std::string real = real_digest(c, *rootp);
	    if (c.violated) return;
	    // make both sides empty again so that model equality stays decidable
	    { LibCall lc(c); vnaproperty_delete(rootp, "."); lc.done(); }
	    m.clear();
	    compare_root(w, ri, op, "delete after unpredicted import");
	}
	return;
    }
    if (op.k == "restart") {
	for (int k = 0; k < NROOTS; ++k) {
	    { LibCall lc(c); vnaproperty_delete(&w.roots[k], "."); lc.done(); }
	    if (w.roots[k] != nullptr) { c.violate("model", "delete:root", "delete \".\" left a non-NULL root"); return; }
	    w.model[k].clear();
	}
	check_ledger_empty(c, "restart (everything deleted)");
	c.count("fault.restart.fired");
	return;
    }
    c.log("unknown op %s ignored", op.k.c_str());
}

static void doc_run(Ctx &c, const Plan &plan)
{
    DocWorld w(c);
    w.assert_refused = plan.cfg.geti("assert_refused", 0) != 0;
    for (size_t k = 0; k < plan.ops.size() && !c.violated; ++k) {
	c.cur_op = (long)k;
	const Op &op = plan.ops[k];
	long task = op.I(9);
	c.interleave = hash_mix(c.interleave, (uint64_t)task + 1);
	run_op(w, op);
    }
    c.cur_op = (long)plan.ops.size();
    if (plan.cfg.gets("mode") == "edit") c.nontrivial = c.states.size() >= 3;
    if (!c.violated) {
	for (int k = 0; k < NROOTS; ++k) {
	    LibCall lc(c);
	    vnaproperty_delete(&w.roots[k], ".");
	    lc.done();
	}
	check_ledger_empty(c, "end of run (all roots deleted)");
    }
}

} // namespace

Plan doc_gen(const std::string &check, const std::string &tier, uint64_t seed, long run);
static EngineReg reg_doc(Engine{"doc", doc_gen, doc_run});
