// C03 "chaos" engine: the whole public vnacal / vnacal_new / parameter surface (plus the vnadata
// and property entry points reachable through it) is called on live objects with arguments drawn
// from valid, boundary (0, n-1, n, n+1, -1) and wild domains, with NULL for the documented
// optional arguments, on success and failure paths, while allocation (libvna and libyaml domain)
// and stream faults are injected.  There is no reference model here: the oracles are
//   - AddressSanitizer / UndefinedBehaviorSanitizer (any report is a violation),
//   - the allocation ledger after everything has been freed with the matching free functions,
//   - "an argument that is detectably invalid (index outside its range, dimension below 1, handle
//     never returned or already deleted) is answered with the documented failure value",
//   - with cfg c11: the reporting discipline of every call (core.cc: c11_discipline).
#include "core.h"
#include "cal_common.h"
#include <climits>
#include <algorithm>
void sim_arm_timer(int seconds);

namespace {

static const int NS = 3;	// vnacal_new_t slots
static const int ND = 2;	// vnadata_t objects

struct Sess { vnacal_new_t *vnp = nullptr; int type = 0, R = 0, C = 0, F = 0; bool fv = false; bool solved = false; bool endless = false; int dead_f = -1; };	// dead_f: every standard of this session reads zero at that frequency index (the system is singular there and only there)
	// endless: an iteration limit above 10000 was accepted

struct ChWorld {
    Ctx &c;
    bool cb = true;
    vnacal_t *vcp = nullptr;
    Sess s[NS];
    std::vector<int> handles;	// every handle the library returned
    std::set<int> dead;		// handles deleted again
    vnadata_t *vd[ND] = {nullptr, nullptr};
    explicit ChWorld(Ctx &ctx) : c(ctx) {}
};

// An index argument is generated as a code: low decimal digit = class, rest = raw value.
//   0-5 valid (raw mod n), 6: -1, 7: n, 8: n+1, 9: wild
static long pick(long code, long n, bool &ok, long base = 0)
{
    static const long WILD[] = {INT_MAX, INT_MIN, -2, 1 << 20, 16385, INT_MAX - 1, -INT_MAX};
    long cls = ((code % 10) + 10) % 10, raw = (code / 10 < 0 ? -(code / 10) : code / 10);
    long v;
    if (cls <= 5) v = n > 0 ? raw % n : 0;
    else if (cls == 6) v = -1;
    else if (cls == 7) v = n;
    else if (cls == 8) v = n + 1;
    else v = WILD[raw % 7] - base;
    ok = v >= 0 && v < n;
    return v + base;
}
// a real argument: class digit + base value
static double dval(long code, double base)
{
    switch (((code % 10) + 10) % 10) {
    case 0: case 1: case 2: case 3: case 4: return base;
    case 5: return 0.0;
    case 6: return -base;
    case 7: return NAN;
    case 8: return INFINITY;
    default: return 1e308;
    }
}
static bool dval_plain(long code) { return ((code % 10) + 10) % 10 <= 4; }

static const char *NAMES[] = {"cal", "second", "a b", "", "x", "very long calibration name with many characters 0123456789 0123456789 0123456789", "\xc3\xa9t\xc3\xa9", "k: v", "#1", "-"};
static const char *DESCS[] = {"a", "a.b", "a[0]", "a[1].x", ".", "", "a=1", "b[+]=2", "c.d=x y", "[", "a..b", "a[", "a[-1]", "a[x]", "{}", "[]", "a={}", "l[]", "a\\.b=q", " s p ", "=", "#", "a#", "a[99999999999]", "%s%n", "k=\xff\xfe"};
static const int NDESC = (int)(sizeof DESCS / sizeof DESCS[0]);

static bool live_handle(ChWorld &w, int h)
{
    if (h >= 0 && h <= 2) return true;	// VNACAL_MATCH, VNACAL_OPEN, VNACAL_SHORT: predefined
    for (int x : w.handles) if (x == h) return !w.dead.count(h);
    return false;
}
static bool known_handle(ChWorld &w, int h) { return (h >= 0 && h <= 2) || std::find(w.handles.begin(), w.handles.end(), h) != w.handles.end(); }
static int pick_handle(ChWorld &w, long code, bool &ok)
{
    long cls = ((code % 10) + 10) % 10, raw = code / 10 < 0 ? -(code / 10) : code / 10;
    int h;
    if (cls <= 5) { long n = (long)w.handles.size() + 3; long q = raw % n; h = q < 3 ? (int)q : w.handles[(size_t)q - 3]; }
    else if (cls == 6) h = -1;
    else if (cls == 7) h = w.handles.empty() ? 3 : *std::max_element(w.handles.begin(), w.handles.end()) + 1;
    else if (cls == 8) h = w.dead.empty() ? 1000 : *w.dead.begin();
    else { static const int WILD[] = {INT_MAX, INT_MIN, -2, 1 << 20, 99999}; h = WILD[raw % 5]; }
    ok = live_handle(w, h);
    return h;
}

// heap block of exactly n elements (n = 0: a valid pointer to nothing), so that ASan sees any access past the stated count
template <class T> struct Exact {
    T *p; long n;
    explicit Exact(long count) : n(count < 0 ? 0 : count) { p = (T *)malloc((size_t)n * sizeof(T)); for (long q = 0; q < n; ++q) p[q] = T(); }
    ~Exact() { free(p); }
    T &operator[](long q) { return p[q]; }
    Exact(const Exact &) = delete;
};
// One library call with the operation's faults armed.  In the C12 enumeration (strict_enomem) a call
// that fails while an injected allocation failure fired is re-issued once without faults, and only the
// final outcome is logged, so that an atomic call gives the fault-free history.
#define CH_CALL(FN, FAILED, BODY) \
    for (int ch_try_ = 0, ch_pend_ = 0;; ++ch_try_) { \
	LibCall lc(c, ch_try_ == 0 ? &op : nullptr); BODY; bool ch_alloc_ = sim_alloc_fault_fired(); lc.done(); err = lc.saved_errno; failed = (FAILED); \
	c11_auto(c, FN, failed, err); if (c.violated) return; \
	if (ch_try_ == 0 && failed && ch_alloc_ && c.strict_enomem) { fault_failed(c, FN, err, true); ch_pend_ = err; if (!c.no_retry) continue; } \
	if (ch_try_ == 1 && !failed) fault_recovered(c, FN, ch_pend_, true); \
	c.log(" %s -> %s errno=%s", FN, failed ? "FAIL" : "ok", failed ? errno_name(err) : "-"); \
	if (failed && c.verbose && !g_sim.callbacks.empty()) fprintf(stderr, "   [%s]\n", g_sim.callbacks.back().msg.c_str()); \
	break; \
    }
#define MUST_FAIL(COND, FN, WHY) \
    if ((COND) && !failed && !c.violated) { c.violate("model", std::string(FN) + ":accepted", strf("%s accepted %s", FN, (WHY).c_str())); return; } \
    if ((COND) && failed) c.count("probe.invalid_refused");

static void fill(MeasBuf &m, Rng &r) { for (auto &v : m.cells) for (auto &x : v) x = mkc(r.uni(-1, 1), r.uni(-1, 1)); }

static void free_sessions_of_dead_vcp(ChWorld &w) { for (auto &s : w.s) s = Sess(); w.handles.clear(); w.dead.clear(); }

static void run_op(ChWorld &w, const Op &op)
{
    Ctx &c = w.c;
    const std::string &k = op.k;
    int err = 0; bool failed = false;
    Rng r((uint64_t)op.I(15) * 2654435761u + 99);
    c.log("op %s i=[%ld,%ld,%ld,%ld,%ld,%ld]", k.c_str(), op.I(0), op.I(1), op.I(2), op.I(3), op.I(4), op.I(5));

    if (k == "new") {
	Sess &s = w.s[(size_t)(op.I(0) % NS + NS) % NS];
	bool tok, rok, cok, fok;
	long type = pick(op.I(1), 9, tok);			// VNACAL_T8 .. VNACAL_E12 are 0..8 with the internal _VNACAL_E12_UE14 in between
	if (type == _VNACAL_E12_UE14) tok = false;
	long R = pick(op.I(2), 3, rok, 1), C = pick(op.I(3), 3, cok, 1), F = pick(op.I(4), 5, fok);
	if (F >= 5) F = op.I(4) % 10 == 9 ? F : F;		// (wild values stay wild)
	if (s.vnp) { LibCall lc(c); vnacal_new_free(s.vnp); lc.done(); s = Sess(); }
	vnacal_new_t *vnp = nullptr;
	CH_CALL("vnacal_new_alloc", vnp == nullptr, vnp = vnacal_new_alloc(w.vcp, (vnacal_type_t)type, (int)R, (int)C, (int)F));
	bool t_type = type == VNACAL_T8 || type == VNACAL_TE10 || type == VNACAL_T16;
	bool bad = !tok || R < 1 || C < 1 || F < 0 || (tok && t_type && R > C) || (tok && !t_type && R < C);
	MUST_FAIL(bad, "vnacal_new_alloc", strf("type %ld, %ld x %ld, %ld frequencies", type, R, C, F));
	if (vnp) { s.vnp = vnp; s.type = (int)type; s.R = (int)R; s.C = (int)C; s.F = (int)F; c.count("probe.session_created"); if (F >= 2 && (op.I(5) == 1 || r.chance(0.25))) { s.dead_f = (int)r.range(1, F - 1); c.count("probe.session_with_a_dead_frequency"); } }
	return;
    }
    if (k == "vfree") {
	Sess &s = w.s[(size_t)(op.I(0) % NS + NS) % NS];
	if (!s.vnp) return;
	{ LibCall lc(c, &op); vnacal_new_free(s.vnp); lc.done(); }
	s = Sess();
	return;
    }
    if (k == "setfv" || k == "merror" || k == "knob" || k == "add" || k == "solve" || k == "addcal") {
	Sess &s = w.s[(size_t)(op.I(0) % NS + NS) % NS];
	if (!s.vnp) return;
	if (k == "setfv") {
	    int mode = (int)op.I(1) % 6;	// 0-2 ascending, 3 descending, 4 with a repeat, 5 negative start
	    std::vector<double> fv((size_t)std::max(s.F, 1) + 1);
	    double f0 = mode == 5 ? -1e6 : 1e6 * (1 + r.below(5));
	    for (int q = 0; q < s.F; ++q) fv[(size_t)q] = mode == 3 ? f0 * (s.F - q) : mode == 4 && q == 1 ? fv[0] : f0 * (q + 1);
	    fv.resize((size_t)s.F);
	    int rc;
	    CH_CALL("vnacal_new_set_frequency_vector", rc != 0, rc = vnacal_new_set_frequency_vector(s.vnp, fv.data()));
	    bool bad = (mode == 3 && s.F > 1) || (mode == 4 && s.F > 1) || (mode == 5 && s.F > 0);
	    MUST_FAIL(bad, "vnacal_new_set_frequency_vector", strf("a frequency vector that is not ascending and non-negative (mode %d, %d points)", mode, s.F));
	    if (rc == 0) s.fv = true;
	    return;
	}
	if (k == "merror") {
	    bool nok;
	    long n = pick(op.I(1), 4, nok);	// 0..3 / -1 / 4 / 5 / wild
	    if (op.I(1) % 10 <= 2) n = op.I(1) % 2 ? 1 : s.F;
	    if (n > 64) return;
	    Exact<double> fv(n), nf(n), tr(n);
	    for (long q = 0; q < fv.n; ++q) { fv[q] = 1e6 * (q + 1) * (op.I(2) % 7 == 6 ? -1 : 1); nf[q] = dval(op.I(3), 1e-4); tr[q] = dval(op.I(4), 1e-3); }
	    int pm = (int)(op.I(5) % 6);	// which pointers are NULL: 0 none, 1 tr, 2 nf+tr, 3 fv, 4 fv+tr, 5 nf
	    const double *pf = (pm == 3 || pm == 4) ? nullptr : fv.p, *pn = (pm == 2 || pm == 5) ? nullptr : nf.p, *pt = (pm == 1 || pm == 2 || pm == 4) ? nullptr : tr.p;
	    int rc;
	    CH_CALL("vnacal_new_set_m_error", rc != 0, rc = vnacal_new_set_m_error(s.vnp, pf, (int)n, pn, pt));
	    long c3 = ((op.I(3) % 10) + 10) % 10, c4 = ((op.I(4) % 10) + 10) % 10;
	    bool bad = n < 1 || (pn == nullptr && pt != nullptr) || (pn != nullptr && (c3 == 5 || c3 == 6)) || (pn != nullptr && pt != nullptr && c4 == 6) || ((pn || pt) && !s.fv);
	    MUST_FAIL(bad, "vnacal_new_set_m_error", strf("%ld frequencies, noise floor class %ld, tracking class %ld, NULL pattern %d, frequency vector %s", n, c3, c4, pm, s.fv ? "set" : "not set"));
	    return;
	}
	if (k == "knob") {
	    int which = (int)(op.I(1) % 5);
	    int rc;
	    double v = dval(op.I(2), which == 4 ? 0.01 : 1e-6);
	    if (which == 0) { CH_CALL("vnacal_new_set_z0", rc != 0, rc = vnacal_new_set_z0(s.vnp, mkc(dval(op.I(2), 50), dval(op.I(3), 0)))); }
	    else if (which == 1) { CH_CALL("vnacal_new_set_p_tolerance", rc != 0, rc = vnacal_new_set_p_tolerance(s.vnp, v)); MUST_FAIL(v < 0, "vnacal_new_set_p_tolerance", strf("tolerance %g", v)); }
	    else if (which == 2) { CH_CALL("vnacal_new_set_et_tolerance", rc != 0, rc = vnacal_new_set_et_tolerance(s.vnp, v)); MUST_FAIL(v < 0, "vnacal_new_set_et_tolerance", strf("tolerance %g", v)); }
	    else if (which == 3) { bool ok; long it = pick(op.I(2), 50, ok, 1); CH_CALL("vnacal_new_set_iteration_limit", rc != 0, rc = vnacal_new_set_iteration_limit(s.vnp, (int)it)); MUST_FAIL(it < 1, "vnacal_new_set_iteration_limit", strf("limit %ld", it)); if (rc == 0) s.endless = it > 10000; }
	    else { CH_CALL("vnacal_new_set_pvalue_limit", rc != 0, rc = vnacal_new_set_pvalue_limit(s.vnp, v)); MUST_FAIL(v <= 0 || v > 1, "vnacal_new_set_pvalue_limit", strf("significance %g", v)); }
	    return;
	}
	if (k == "add") {
	    int kind = (int)(op.I(1) % 5);	// 0 single, 1 double, 2 through, 3 line, 4 mapped matrix
	    bool ab = op.I(2) % 2 != 0;
	    int P = std::max(s.R, s.C);
	    bool p1ok, p2ok;
	    long p1 = pick(op.I(3), P, p1ok, 1), p2 = pick(op.I(4), P, p2ok, 1);
	    // measurement dimensions: right (full matrix) or off by the generated delta
	    int dr = (int)(op.I(5) % 10 == 7 ? 1 : op.I(5) % 10 == 8 ? -1 : op.I(5) % 10 == 9 ? -s.R : 0);
	    int dc = (int)(op.I(6) % 10 == 7 ? 1 : op.I(6) % 10 == 8 ? -1 : op.I(6) % 10 == 9 ? -s.C - 1 : 0);
	    int br = s.R + dr, bc = s.C + dc;
	    bool ue = s.type == VNACAL_UE14 || s.type == VNACAL_E12;
	    int ar = ue ? 1 : s.C, ac = s.C;
	    if (op.I(7) % 10 >= 8) ar += 1;
	    MeasBuf a, b;
	    b.shape(std::max(br, 1) + 1, std::max(bc, 1) + 1, std::max(s.F, 1));
	    a.shape(std::max(ar, 1) + 1, std::max(ac, 1) + 1, std::max(s.F, 1));
	    fill(a, r); fill(b, r);
	    if (s.dead_f >= 0 && s.dead_f < s.F) for (auto &v : b.cells) v[(size_t)s.dead_f] = mkc(0, 0);
	    if (ab && s.F > 0 && op.I(10) % 10 >= 8) { int fs = (int)((op.I(10) / 10) % s.F); for (auto &v : a.cells) v[(size_t)fs] = op.I(10) % 10 == 8 ? mkc(0, 0) : mkc(0.5, 0.25); c.count("probe.singular_a_matrix"); }
	    // the pointer tables are laid out for the claimed column count
	    std::vector<cplx *> bp((size_t)std::max(br, 1) * (size_t)std::max(bc, 1)), ap((size_t)std::max(ar, 1) * (size_t)std::max(ac, 1));
	    for (int i = 0; i < std::max(br, 1); ++i) for (int j = 0; j < std::max(bc, 1); ++j) bp[(size_t)i * (size_t)std::max(bc, 1) + j] = &b.at(i, j, 0);
	    for (int i = 0; i < std::max(ar, 1); ++i) for (int j = 0; j < std::max(ac, 1); ++j) ap[(size_t)i * (size_t)std::max(ac, 1) + j] = &a.at(i, j, 0);
	    bool h1ok, h2ok;
	    int h1 = pick_handle(w, op.I(8), h1ok), h2 = pick_handle(w, op.I(9), h2ok);
	    if (op.I(11) == 1 && !w.handles.empty()) { h1 = w.handles.back(); h1ok = live_handle(w, h1); }	// the parameter made last
	    int smat[4] = {h1, VNACAL_ZERO, VNACAL_ZERO, h2};
	    int pmap[2] = {(int)p1, (int)p2};
	    // pointer / shape class: 0-5 as above, 6 NULL measurement matrix, 7 NULL reference matrix (a/b forms),
	    // 8 mapped matrix with its own S dimensions and port map, 9 the same without port map
	    int pcls = (int)((op.I(12) % 10 + 10) % 10);
	    bool sok_r = true, sok_c = true;
	    long sr = 2, scn = 2;
	    if (pcls >= 8 && kind == 4) { sr = pick(op.I(13), 3, sok_r, 1); scn = pick(op.I(14), 3, sok_c, 1); if (sr > 8) sr = 8; if (scn > 8) scn = 8; }
	    long scells = std::max<long>(sr, 0) * std::max<long>(scn, 0), sports = std::max(std::max<long>(sr, scn), 0L);
	    Exact<int> smx(scells), pmx(sports);	// exactly as many cells / ports as the stated dimensions need
	    for (long q = 0; q < smx.n; ++q) smx[q] = q == 0 ? h1 : q == smx.n - 1 ? h2 : (q % (std::max<long>(scn, 1) + 1) == 0 ? VNACAL_MATCH : VNACAL_ZERO);
	    for (long q = 0; q < pmx.n; ++q) pmx[q] = q == 0 ? (int)p1 : q == 1 ? (int)p2 : (int)((p1 + p2 + q) % std::max(P, 1) + 1);
	    bool own_s = pcls >= 8 && kind == 4;
	    const int *smat_p = own_s ? smx.p : smat, *pmap_p = own_s ? (pcls == 9 ? nullptr : pmx.p) : pmap;
	    int s_r = own_s ? (int)sr : 2, s_c = own_s ? (int)scn : 2;
	    cplx *const *bpp = pcls == 6 ? nullptr : bp.data();
	    cplx *const *app = pcls == 7 ? nullptr : ap.data();
	    if (pcls >= 6) c.count(strf("probe.add_pointer_class_%d", pcls));
	    int rc = 0;
	    const char *fn = "vnacal_new_add_*";
	    c.log(" add kind=%d %s type=%d cal=%dx%d meas=%dx%d a=%dx%d ports=%ld,%ld", kind, ab ? "ab" : "m", s.type, s.R, s.C, br, bc, ar, ac, p1, p2);
	    CH_CALL(fn, rc != 0,
		if (kind == 0) rc = ab ? vnacal_new_add_single_reflect(s.vnp, app, ar, ac, bpp, br, bc, h1, (int)p1) : vnacal_new_add_single_reflect_m(s.vnp, bpp, br, bc, h1, (int)p1);
		else if (kind == 1) rc = ab ? vnacal_new_add_double_reflect(s.vnp, app, ar, ac, bpp, br, bc, h1, h2, (int)p1, (int)p2) : vnacal_new_add_double_reflect_m(s.vnp, bpp, br, bc, h1, h2, (int)p1, (int)p2);
		else if (kind == 2) rc = ab ? vnacal_new_add_through(s.vnp, app, ar, ac, bpp, br, bc, (int)p1, (int)p2) : vnacal_new_add_through_m(s.vnp, bpp, br, bc, (int)p1, (int)p2);
		else if (kind == 3) rc = ab ? vnacal_new_add_line(s.vnp, app, ar, ac, bpp, br, bc, smat, (int)p1, (int)p2) : vnacal_new_add_line_m(s.vnp, bpp, br, bc, smat, (int)p1, (int)p2);
		else rc = ab ? vnacal_new_add_mapped_matrix(s.vnp, app, ar, ac, bpp, br, bc, smat_p, s_r, s_c, pmap_p) : vnacal_new_add_mapped_matrix_m(s.vnp, bpp, br, bc, smat_p, s_r, s_c, pmap_p));
	    if (pcls == 6) { MUST_FAIL(true, fn, std::string("a NULL measurement matrix")); return; }
	    if (own_s) {
		// judged only where the manual leaves no doubt: S dimensions outside 1..ports, or no port map for an S matrix smaller than the calibration
		bool sbad = sr < 1 || scn < 1 || sr > P || scn > P || (pcls == 9 && (sr != P || scn != P));
		MUST_FAIL(sbad, fn, strf("a %ld x %ld S matrix %s port map on a %d-port calibration", sr, scn, pcls == 9 ? "without" : "with", P));
		if (rc == 0) c.count("probe.standard_added");
		return;
	    }
	    bool two = kind != 0;
	    bool bad = !p1ok || (two && !p2ok) || (two && p1 == p2) || br < 1 || bc < 1 || br > s.R || bc > s.C ||
		((kind == 0 || kind == 1 || kind == 3 || kind == 4) && !known_handle(w, h1)) || ((kind == 1 || kind == 3 || kind == 4) && !known_handle(w, h2));
	    // (a handle deleted after this session used it stays usable in this session: only handles the library never returned are judged)
	    MUST_FAIL(bad, fn, strf("kind %d ports %ld,%ld on %d ports, measurement %dx%d for a %dx%d calibration, handles %d(%s) %d(%s)",
			kind, p1, p2, P, br, bc, s.R, s.C, h1, known_handle(w, h1) ? "known" : "never returned", h2, known_handle(w, h2) ? "known" : "never returned"));
	    (void)h1ok; (void)h2ok;
	    if (rc == 0) c.count("probe.standard_added");
	    return;
	}
	if (k == "solve") {
	    int rc;
	    // (with random data an iterative solve may use every iteration it was allowed: two thousand million of them is the caller's wish, not a hang)
	    if (s.endless) { c.count("probe.solve_skipped_after_huge_iteration_limit"); return; }
	    sim_arm_timer(60);
	    CH_CALL("vnacal_new_solve", rc != 0, rc = vnacal_new_solve(s.vnp));
	    MUST_FAIL(!s.fv, "vnacal_new_solve", std::string("a calibration without frequency vector"));
	    if (rc == 0) s.solved = true;	// (a failed solve keeps the calibration of an earlier successful one)
	    c.count(rc == 0 ? "probe.solve_ok" : "probe.solve_failed");
	    return;
	}
	if (k == "addcal") {
	    const char *name = NAMES[(size_t)(op.I(1) % 10 + 10) % 10];
	    int ci;
	    if (op.I(2) % 10 == 9) {
		// a vnacal_new_t that belongs to another vnacal_t
		vnacal_t *other = nullptr; vnacal_new_t *ovnp = nullptr;
		{ LibCall lc(c); other = vnacal_create(w.cb ? sim_error_fn : nullptr, nullptr); if (other) ovnp = vnacal_new_alloc(other, VNACAL_T8, 1, 1, 1); lc.done(); }
		if (ovnp) {
		    CH_CALL("vnacal_add_calibration", ci < 0, ci = vnacal_add_calibration(w.vcp, name, ovnp));
		    MUST_FAIL(true, "vnacal_add_calibration", std::string("a vnacal_new_t of another vnacal_t"));
		    c.count("probe.addcal_foreign_session_refused");
		}
		{ LibCall lc(c); if (other) vnacal_free(other); lc.done(); }
		return;
	    }
	    CH_CALL("vnacal_add_calibration", ci < 0, ci = vnacal_add_calibration(w.vcp, name, s.vnp));
	    MUST_FAIL(!s.solved, "vnacal_add_calibration", std::string("a vnacal_new_t that was not solved"));
	    if (ci >= 0) { c.count("probe.calibration_added"); c.nontrivial = true; s.solved = false; }	// the solved calibration moved into the vnacal_t
	    return;
	}
    }
    if (k == "mkparam") {
	int kind = (int)(op.I(0) % 4);
	int h = -1;
	if (kind == 0) { CH_CALL("vnacal_make_scalar_parameter", h < 0, h = vnacal_make_scalar_parameter(w.vcp, mkc(dval(op.I(1), 0.5), dval(op.I(2), 0.1)))); }
	else if (kind == 1) {
	    bool nok; long n = pick(op.I(1), 4, nok, 1);
	    if (n > 64) n = 64;
	    Exact<double> fv(n); Exact<cplx> gv(n);
	    int mode = (int)(op.I(2) % 5);	// 3 descending, 4 negative
	    for (long q = 0; q < fv.n; ++q) { fv[q] = mode == 3 ? 1e6 * (fv.n - q) : mode == 4 ? -1e6 * (fv.n - q) : 1e6 * (q + 1); gv[q] = mkc(r.uni(-1, 1), r.uni(-1, 1)); }
	    CH_CALL("vnacal_make_vector_parameter", h < 0, h = vnacal_make_vector_parameter(w.vcp, fv.p, (int)n, gv.p));
	    MUST_FAIL(n < 1 || (mode == 3 && n > 1) || mode == 4, "vnacal_make_vector_parameter", strf("%ld points, mode %d", n, mode));
	} else if (kind == 2) {
	    bool ok; int other = pick_handle(w, op.I(1), ok);
	    CH_CALL("vnacal_make_unknown_parameter", h < 0, h = vnacal_make_unknown_parameter(w.vcp, other));
	    MUST_FAIL(!ok, "vnacal_make_unknown_parameter", strf("initial-guess handle %d, which is not live", other));
	} else {
	    bool ok, nok; int other = pick_handle(w, op.I(1), ok);
	    if (op.I(6) == 1 && !w.handles.empty()) { other = w.handles.back(); ok = live_handle(w, other); }	// correlated with the parameter made last
	    long n = pick(op.I(2), 3, nok, 1);
	    if (n > 64) n = 64;
	    Exact<double> fv(n), sv(n);
	    for (long q = 0; q < fv.n; ++q) { fv[q] = 1e6 * (q + 1) * (op.I(3) % 7 == 6 ? -1 : 1); sv[q] = dval(op.I(4), 0.01); }
	    const double *pf = (n == 1 && op.I(5) % 2) ? nullptr : fv.p;
	    CH_CALL("vnacal_make_correlated_parameter", h < 0, h = vnacal_make_correlated_parameter(w.vcp, other, pf, (int)n, sv.p));
	    long c4 = ((op.I(4) % 10) + 10) % 10;
	    MUST_FAIL(!ok || n < 1 || c4 == 5 || c4 == 6, "vnacal_make_correlated_parameter", strf("other %d (%s), %ld sigma points of class %ld", other, ok ? "live" : "invalid", n, c4));
	}
	if (h >= 0) {
	    if (live_handle(w, h) && h > 2) { c.violate("model", "mkparam:handle", strf("new parameter got handle %d, which is still live", h)); return; }
	    w.dead.erase(h);
	    if (std::find(w.handles.begin(), w.handles.end(), h) == w.handles.end()) w.handles.push_back(h);
	    c.count("probe.parameter_created");
	}
	return;
    }
    if (k == "delparam") {
	bool ok; int h = pick_handle(w, op.I(0), ok);
	int rc;
	CH_CALL("vnacal_delete_parameter", rc != 0, rc = vnacal_delete_parameter(w.vcp, h));
	MUST_FAIL(!ok, "vnacal_delete_parameter", strf("handle %d, which is not live", h));
	if (rc == 0 && h > 2) w.dead.insert(h);
	return;
    }
    if (k == "getpv") {
	bool ok; int h = pick_handle(w, op.I(0), ok);
	cplx v;
	// (a scalar parameter may legitimately hold +inf: failure is HUGE_VAL together with errno)
	CH_CALL("vnacal_get_parameter_value", __real__ v == HUGE_VAL && err != 0, errno = 0; v = vnacal_get_parameter_value(w.vcp, h, dval(op.I(1), 1.5e6)));
	MUST_FAIL(!ok, "vnacal_get_parameter_value", strf("handle %d, which is not live", h));
	return;
    }
    if (k == "ciq") {	// all queries on a calibration index
	int end; { LibCall lc(c); end = vnacal_get_calibration_end(w.vcp); lc.done(); }
	bool ok; long ci = pick(op.I(0), end, ok);
	const char *nm; int ty, R, C, F; double lo, hi; const double *fv; cplx z0;
	{ LibCall lc(c, &op); nm = vnacal_get_name(w.vcp, (int)ci); ty = (int)vnacal_get_type(w.vcp, (int)ci); R = vnacal_get_rows(w.vcp, (int)ci); C = vnacal_get_columns(w.vcp, (int)ci);
	  F = vnacal_get_frequencies(w.vcp, (int)ci); lo = vnacal_get_fmin(w.vcp, (int)ci); hi = vnacal_get_fmax(w.vcp, (int)ci); fv = vnacal_get_frequency_vector(w.vcp, (int)ci); z0 = vnacal_get_z0(w.vcp, (int)ci);
	  if (fv && F > 0) { volatile double t = fv[0] + fv[F - 1]; (void)t; }
	  lc.done(); }
	if (!ok && (nm || ty != -1 || R != -1 || C != -1 || F != -1 || lo != HUGE_VAL || hi != HUGE_VAL || fv || __real__ z0 != HUGE_VAL)) { c.violate("model", "ciq:accepted", strf("a vnacal_get_* function answered for calibration index %ld (end is %d)", ci, end)); return; }
	if (!ok) c.count("probe.invalid_refused");
	if (g_sim.callbacks.size()) { c.violate("model", "ciq:callback", "a vnacal_get_* function invoked the error function: " + g_sim.callbacks[0].msg); return; }
	int rc; const char *name = NAMES[(size_t)(op.I(1) % 10 + 10) % 10];
	CH_CALL("vnacal_find_calibration", rc < 0, rc = vnacal_find_calibration(w.vcp, name));
	return;
    }
    if (k == "delcal") {
	int end; { LibCall lc(c); end = vnacal_get_calibration_end(w.vcp); lc.done(); }
	bool ok; long ci = pick(op.I(0), end, ok);
	int rc;
	CH_CALL("vnacal_delete_calibration", rc != 0, rc = vnacal_delete_calibration(w.vcp, (int)ci));
	MUST_FAIL(!ok, "vnacal_delete_calibration", strf("index %ld (end is %d)", ci, end));
	return;
    }
    if (k == "apply") {
	int end; { LibCall lc(c); end = vnacal_get_calibration_end(w.vcp); lc.done(); }
	bool ok; long ci = pick(op.I(0), end, ok);
	int R = 1, C = 1, F = 0, ctype = 0; double lo = 1e6, hi = 1e6; bool exists = false;
	if (ok) { LibCall lc(c); exists = vnacal_get_name(w.vcp, (int)ci) != nullptr; if (exists) { ctype = (int)vnacal_get_type(w.vcp, (int)ci); R = vnacal_get_rows(w.vcp, (int)ci); C = vnacal_get_columns(w.vcp, (int)ci); F = vnacal_get_frequencies(w.vcp, (int)ci); lo = vnacal_get_fmin(w.vcp, (int)ci); hi = vnacal_get_fmax(w.vcp, (int)ci); } lc.done(); }
	bool nok; long n = pick(op.I(1), 4, nok);
	if (n > 16) n = 16;
	int dr = (int)(op.I(2) % 10 == 7 ? 1 : op.I(2) % 10 == 8 ? -1 : 0), dc = (int)(op.I(3) % 10 == 7 ? 1 : op.I(3) % 10 == 8 ? -1 : 0);
	int P = std::max(R, C);
	int br = P + dr, bc = P + dc;
	bool ab = op.I(4) % 2 != 0;
	int fmode = (int)(op.I(5) % 6);	// 0-2 in range, 3 below, 4 above, 5 descending
	long an = std::max<long>(n, 1);
	Exact<double> fv(n);
	for (long q = 0; q < fv.n; ++q) { double t = an > 1 ? (double)q / (double)(an - 1) : 0.5; fv[q] = fmode == 3 ? lo * 0.5 - q : fmode == 4 ? hi * 2 + q + 1 : fmode == 5 ? hi - (hi - lo) * t : lo + (hi - lo) * t; }
	MeasBuf a, b;
	b.shape(std::max(br, 1) + 1, std::max(bc, 1) + 1, (int)an); a.shape(std::max(bc, 1) + 1, std::max(bc, 1) + 1, (int)an);
	fill(a, r); fill(b, r);
	// sometimes a reference matrix that is singular at one frequency (all zero, or rank one)
	if (ab && an > 0 && op.I(7) % 10 >= 8) { int fs = (int)((op.I(7) / 10) % an); for (auto &v : a.cells) v[(size_t)fs] = op.I(7) % 10 == 8 ? mkc(0, 0) : mkc(0.5, 0.25); c.count("probe.singular_a_matrix"); }
	int ar = (ctype == VNACAL_UE14 || ctype == VNACAL_E12) ? 1 : bc, ac = bc;
	std::vector<cplx *> bp((size_t)std::max(br, 1) * (size_t)std::max(bc, 1)), ap((size_t)std::max(ar, 1) * (size_t)std::max(ac, 1));
	for (int i = 0; i < std::max(br, 1); ++i) for (int j = 0; j < std::max(bc, 1); ++j) bp[(size_t)i * (size_t)std::max(bc, 1) + j] = &b.at(i, j, 0);
	for (int i = 0; i < std::max(ar, 1); ++i) for (int j = 0; j < std::max(ac, 1); ++j) ap[(size_t)i * (size_t)std::max(ac, 1) + j] = &a.at(i, j, 0);
	vnadata_t *out = w.vd[(size_t)(op.I(6) % ND + ND) % ND];
	int rc;
	// pointer class: 6 NULL frequency vector, 7 NULL measurement matrix, 8 a NULL cell pointer in it, 9 NULL result object
	int pcls = (int)((op.I(8) % 10 + 10) % 10);
	if (pcls == 8 && !bp.empty()) bp[(size_t)((op.I(8) / 10) % (long)bp.size())] = nullptr;
	const double *fvp = pcls == 6 ? nullptr : fv.p;
	cplx *const *bpp = pcls == 7 ? nullptr : bp.data();
	if (pcls == 9) out = nullptr;
	if (pcls >= 6) c.count(strf("probe.apply_pointer_class_%d", pcls));
	CH_CALL("vnacal_apply", rc != 0, rc = ab ? vnacal_apply(w.vcp, (int)ci, fvp, (int)n, ap.data(), ar, ac, bpp, br, bc, out) : vnacal_apply_m(w.vcp, (int)ci, fvp, (int)n, bpp, br, bc, out));
	if (pcls >= 6) { MUST_FAIL(pcls != 8 || (br >= 1 && bc >= 1), "vnacal_apply", strf("a NULL pointer (class %d)", pcls)); return; }
	bool bad = !ok || !exists || n < 0 || (n > 0 && F > 0 && (fmode == 3 || fmode == 4)) || (n > 1 && fmode == 5 && hi > lo);
	MUST_FAIL(bad, "vnacal_apply", strf("index %ld (%s), %ld frequencies in mode %d", ci, ok && exists ? "live" : "invalid", n, fmode));
	if (rc == 0) c.count("probe.applied");
	return;
    }
    if (k == "prop") {
	int end; { LibCall lc(c); end = vnacal_get_calibration_end(w.vcp); lc.done(); }
	bool ok; long ci = op.I(0) % 3 == 0 ? -1 : pick(op.I(0) / 3, end, ok);
	if (ci == -1) ok = true;	// -1 addresses the global property tree
	else if (ok) { LibCall lc(c); ok = vnacal_get_name(w.vcp, (int)ci) != nullptr; lc.done(); }
	const char *d = DESCS[(size_t)(op.I(1) % NDESC + NDESC) % NDESC];
	int which = (int)(op.I(2) % 8);
	int rc = 0; const void *p = nullptr;
	switch (which) {
	case 0: CH_CALL("vnacal_property_set", rc != 0, rc = vnacal_property_set(w.vcp, (int)ci, "%s", d)); break;
	case 1: CH_CALL("vnacal_property_get", p == nullptr, p = vnacal_property_get(w.vcp, (int)ci, "%s", d)); break;
	case 2: CH_CALL("vnacal_property_type", rc < 0, rc = vnacal_property_type(w.vcp, (int)ci, "%s", d)); break;
	case 3: CH_CALL("vnacal_property_count", rc < 0, rc = vnacal_property_count(w.vcp, (int)ci, "%s", d)); break;
	case 4: { const char **kv = nullptr; CH_CALL("vnacal_property_keys", kv == nullptr, kv = vnacal_property_keys(w.vcp, (int)ci, "%s", d); if (kv) { for (const char **q = kv; *q; ++q) { volatile size_t t = strlen(*q); (void)t; } free((void *)kv); }); break; }
	case 5: CH_CALL("vnacal_property_delete", rc != 0, rc = vnacal_property_delete(w.vcp, (int)ci, "%s", d)); break;
	case 6: CH_CALL("vnacal_property_get_subtree", p == nullptr, errno = 0; p = vnacal_property_get_subtree(w.vcp, (int)ci, "%s", d)); break;
	default: CH_CALL("vnacal_property_set_subtree", p == nullptr, p = vnacal_property_set_subtree(w.vcp, (int)ci, "%s", d)); break;
	}
	if (!ok && which != 6) { MUST_FAIL(true, "vnacal_property_*", strf("calibration index %ld (end is %d)", ci, end)); }
	return;
    }
    if (k == "prec") {
	bool ok1, ok2;
	long fp = pick(op.I(0), 16, ok1, 1), dp = pick(op.I(1), 16, ok2, 1);
	if (op.I(0) % 10 == 5) fp = VNACAL_MAX_PRECISION;
	int rc;
	CH_CALL("vnacal_set_fprecision", rc != 0, rc = vnacal_set_fprecision(w.vcp, (int)fp));
	MUST_FAIL(fp < 1, "vnacal_set_fprecision", strf("precision %ld", fp));
	CH_CALL("vnacal_set_dprecision", rc != 0, rc = vnacal_set_dprecision(w.vcp, (int)dp));
	MUST_FAIL(dp < 1, "vnacal_set_dprecision", strf("precision %ld", dp));
	return;
    }
    if (k == "save") {
	std::string name = op.S(0).empty() ? "ch.vnacal" : op.S(0);
	int rc;
	CH_CALL("vnacal_save", rc != 0, rc = vnacal_save(w.vcp, name.c_str()));
	if (rc == 0) c.count("probe.saved");
	return;
    }
    if (k == "load" || k == "recreate") {
	// vnacal_free with live vnacal_new_t structures, parameters and calibrations
	{ LibCall lc(c); vnacal_free(w.vcp); for (int q = 0; q < ND; ++q) vnadata_free(w.vd[q]); lc.done(); }
	w.vcp = nullptr;
	free_sessions_of_dead_vcp(w);
	check_ledger_empty(c, "vnacal_free (with live sessions, parameters and calibrations)");
	{ LibCall lc(c); for (int q = 0; q < ND; ++q) w.vd[q] = vnadata_alloc(w.cb ? sim_error_fn : nullptr, (void *)(uintptr_t)(0x10 + q)); lc.done(); }
	if (c.violated) return;
	if (k == "load") {
	    std::string name = op.S(0).empty() ? "ch.vnacal" : op.S(0);
	    vnacal_t *v = nullptr;
	    { LibCall lc(c, &op); v = vnacal_load(name.c_str(), w.cb ? sim_error_fn : nullptr, nullptr); lc.done(); err = lc.saved_errno; }
	    c11_discipline(c, "vnacal_load", "vnacal_load", v == nullptr, err, w.cb, C11_MUST);
	    if (c.violated) return;
	    if (v) { w.vcp = v; c.count("probe.loaded"); return; }
	    { LibCall lc(c); for (int q = 0; q < ND; ++q) vnadata_free(w.vd[q]); lc.done(); }
	    check_ledger_empty(c, "failed vnacal_load");
	    { LibCall lc(c); for (int q = 0; q < ND; ++q) w.vd[q] = vnadata_alloc(w.cb ? sim_error_fn : nullptr, (void *)(uintptr_t)(0x10 + q)); lc.done(); }
	    if (c.violated) return;
	}
	{ LibCall lc(c); w.vcp = vnacal_create(w.cb ? sim_error_fn : nullptr, nullptr); lc.done(); }
	if (!w.vcp) c.violate("harness", "create", "vnacal_create failed without a fault");
	return;
    }
    if (k == "names") {
	static const char *TN[] = {"T8", "U8", "TE10", "UE10", "T16", "U16", "UE14", "E12", "", "t8", "E12_UE14", "X", "T160", "\xff"};
	bool ok; long t = pick(op.I(0), 8, ok);
	{ LibCall lc(c, &op); const char *n = vnacal_type_to_name((vnacal_type_t)t); if (n) { volatile size_t q = strlen(n); (void)q; } (void)vnacal_name_to_type(TN[(size_t)(op.I(1) % 14 + 14) % 14]);
	  const char *tn = vnadata_get_type_name((vnadata_parameter_type_t)pick(op.I(2), VPT_NTYPES, ok)); if (tn) { volatile size_t q = strlen(tn); (void)q; } lc.done(); }
	return;
    }
    if (k == "vd") {	// the output object is also used directly
	vnadata_t *v = w.vd[(size_t)(op.I(0) % ND + ND) % ND];
	int which = (int)(op.I(1) % 6);
	int rc = 0;
	bool o1, o2, o3;
	if (which == 0) { long t = pick(op.I(2), VPT_NTYPES, o1), R = pick(op.I(3), 4, o2), C = pick(op.I(4), 4, o3); long F = op.I(5) % 10 == 9 ? INT_MAX : op.I(5) % 10 == 6 ? -1 : (op.I(5) / 10) % 4;
	    CH_CALL("vnadata_init", rc != 0, rc = vnadata_init(v, (vnadata_parameter_type_t)t, (int)R, (int)C, (int)F)); MUST_FAIL(R < 0 || C < 0 || F < 0 || !o1, "vnadata_init", strf("type %ld, %ld x %ld, %ld", t, R, C, F)); }
	else if (which == 1) { static const char *FM[] = {nullptr, "Sri", "sma,zri", "", ",", "Sri,", "Q", "IL", "vswr", "Sri,Sri,Sri,Sri", "s\xc3\xa9", "PRC,SRL", "Zin ma"}; CH_CALL("vnadata_set_format", rc != 0, rc = vnadata_set_format(v, FM[(size_t)(op.I(2) % 13 + 13) % 13])); }
	else if (which == 2) { static const char *FN[] = {"o.s2p", "o.ts", "o.npd", "o", "o.s9p", "o.S1P", ".npd", "o.s0p", "dir/o.npd"}; CH_CALL("vnadata_save", rc != 0, rc = vnadata_save(v, FN[(size_t)(op.I(2) % 9 + 9) % 9])); }
	else if (which == 3) { static const char *FN[] = {"o.s2p", "o.ts", "o.npd", "o", "ch.vnacal", "missing.npd"}; CH_CALL("vnadata_load", rc != 0, rc = vnadata_load(v, FN[(size_t)(op.I(2) % 6 + 6) % 6])); }
	else if (which == 4) { long t = pick(op.I(2), VPT_NTYPES, o1); vnadata_t *dst = w.vd[(size_t)(op.I(3) % ND + ND) % ND]; CH_CALL("vnadata_convert", rc != 0, rc = vnadata_convert(v, dst, (vnadata_parameter_type_t)t)); MUST_FAIL(!o1, "vnadata_convert", strf("to type %ld", t)); }
	else { long ft = pick(op.I(2), 4, o1); CH_CALL("vnadata_set_filetype", rc != 0, rc = vnadata_set_filetype(v, (vnadata_filetype_t)ft)); MUST_FAIL(!o1, "vnadata_set_filetype", strf("%ld", ft)); }
	return;
    }
    c.log("unknown op %s ignored", k.c_str());
}

static void chaos_run(Ctx &c, const Plan &plan)
{
    ChWorld w(c);
    w.cb = plan.cfg.geti("callback", 1) != 0;
    c.cb_installed = w.cb;
    { LibCall lc(c); w.vcp = vnacal_create(w.cb ? sim_error_fn : nullptr, nullptr); for (int q = 0; q < ND; ++q) w.vd[q] = vnadata_alloc(w.cb ? sim_error_fn : nullptr, (void *)(uintptr_t)(0x10 + q)); lc.done(); }
    for (size_t k = 0; k < plan.ops.size() && !c.violated; ++k) { c.cur_op = (long)k; c.interleave = hash_mix(c.interleave, fnv1a(plan.ops[k].k)); run_op(w, plan.ops[k]); c.states.insert(hash_mix(fnv1a(plan.ops[k].k), (uint64_t)plan.ops[k].I(0))); }
    c.cur_op = (long)plan.ops.size();
    if (c.violated) return;
    c.nontrivial = c.nontrivial || c.states.size() >= 4;
    // the matching free functions, in one of three orders
    int order = (int)plan.cfg.geti("free_order", 0);
    if (order == 1) for (auto &s : w.s) if (s.vnp) { LibCall lc(c); vnacal_new_free(s.vnp); lc.done(); s.vnp = nullptr; }
    if (order == 2) for (int q = NS - 1; q >= 0; --q) if (w.s[q].vnp) { LibCall lc(c); vnacal_new_free(w.s[q].vnp); lc.done(); w.s[q].vnp = nullptr; }
    { LibCall lc(c); vnacal_free(w.vcp); for (int q = 0; q < ND; ++q) vnadata_free(w.vd[q]); lc.done(); }
    check_ledger_empty(c, "end of run (vnacal_free, vnadata_free)");
}

} // namespace

Plan chaos_gen(const std::string &check, const std::string &tier, uint64_t seed, long run)
{
    Rng rng(hash_mix(hash_mix(seed, fnv1a(check)), (uint64_t)run));
    Plan plan;
    bool thorough = tier == "thorough";
    plan.cfg["callback"] = rng.chance(0.8) ? 1 : 0;
    plan.cfg["free_order"] = (long)rng.below(3);
    if (check.compare(0, 3, "C11") == 0) plan.cfg["c11"] = 1;
    // swarm: how wild the arguments are, which fault kinds are enabled
    double p_bad = rng.pick(std::vector<double>{0.0, 0.1, 0.3, 0.6});
    bool f_vna = rng.chance(0.5), f_yaml = rng.chance(0.3), f_io = rng.chance(0.3);
    double p_fault = rng.chance(0.4) ? 0 : rng.pick(std::vector<double>{0.03, 0.1, 0.3});
    bool c12 = check.compare(0, 3, "C12") == 0;	// the enumeration adds the faults itself; vnacal_t replacement is left out
    if (c12) { p_fault = 0; plan.cfg["strict_enomem"] = 1; if (p_bad > 0.3) p_bad = 0.3; }
    if (check.find("noretry") != std::string::npos) plan.cfg["no_retry"] = 1;	// the failed call is not re-issued: the objects are used on as they are
    plan.cfg["p_bad"] = p_bad; plan.cfg["p_fault"] = p_fault;
    auto code = [&](void) -> long { long raw = rng.below(1000); long cls = rng.chance(p_bad) ? rng.range(6, 9) : rng.range(0, 5); return raw * 10 + cls; };
    auto good = [&](void) -> long { return rng.below(1000) * 10 + rng.range(0, 4); };
    auto mk = [&](const char *k, std::vector<long> i) { Op o; o.k = k; o.i = i; o.i.resize(16, 0); o.i[15] = (long)rng.below(1000000);
	if (rng.chance(p_fault)) { Fault f; double u = rng.uni(); if (f_vna && u < 0.5) { f.t = "alloc.vna"; f.n = rng.range(1, 60); o.f.push_back(f); } else if (f_yaml && u < 0.7) { f.t = "alloc.yaml"; f.n = rng.range(1, 200); o.f.push_back(f); }
	    else if (f_io) { double v = rng.uni(); if (v < 0.3) { f.t = "write.err"; f.n = rng.range(0, 2000); f.e = ENOSPC; } else if (v < 0.5) { f.t = "read.eio"; f.n = rng.range(0, 2000); } else if (v < 0.7) { f.t = "read.eof"; f.n = rng.range(0, 2000); } else if (v < 0.85) f.t = "close.err"; else { f.t = "open.fail"; f.e = EACCES; } o.f.push_back(f); } }
	return o; };
    long nops = rng.chance(0.5) ? rng.range(3, 20) : rng.range(20, thorough ? 120 : 70);
    if (c12) nops = rng.range(3, 14);
    // a useful backbone in most runs: session, frequency vector, some standards, solve, add, apply
    auto backbone = [&](int slot) {
	long type = rng.pick(std::vector<long>{0, 1, 2, 3, 4, 5, 6, 8}) * 10;
	long dim = rng.below(2);	// 1 or 2 ports mostly
	plan.ops.push_back(mk("new", {slot, type + 0, dim * 10, dim * 10, rng.range(1, 3) * 10}));
	plan.ops.push_back(mk("setfv", {slot, 0}));
	if (rng.chance(0.3)) plan.ops.push_back(mk("merror", {slot, 1, rng.below(6), good(), good(), 3}));	// (valid: measurement-error modelling on for this session)
	int nstd = (int)rng.range(3, 9);
	for (int q = 0; q < nstd; ++q) plan.ops.push_back(mk("add", {slot, rng.below(5), rng.below(2), good(), good(), 0, 0, 0, good(), good()}));
	plan.ops.push_back(mk("solve", {slot}));
	plan.ops.push_back(mk("addcal", {slot, rng.below(10)}));
	plan.ops.push_back(mk("apply", {good(), good(), 0, 0, rng.below(2), rng.below(3), rng.below(2)}));
    };
    // a standard whose parameter is correlated with another one that the calibration has not seen yet
    auto backbone_correlated = [&](int slot) {
	plan.ops.push_back(mk("mkparam", {0, good(), good()}));
	plan.ops.push_back(mk("mkparam", {3, good(), 0, 0, good(), 0, 1}));	// one sigma value: no frequency range of its own
	plan.ops.push_back(mk("new", {slot, rng.pick(std::vector<long>{0, 1, 2, 3, 6, 8}) * 10, 0, 0, rng.range(1, 2) * 10}));
	plan.ops.push_back(mk("setfv", {slot, 0}));
	plan.ops.push_back(mk("add", {slot, 0, rng.below(2), 0, 0, 0, 0, 0, good(), good(), 0, 1}));
    };
    // a session with measurement-error modelling whose standards all read zero at one of the later frequencies: the solve
    // succeeds at the first frequencies and fails (singular) at that one
    auto backbone_dead = [&](int slot) {
	long dim = rng.below(2);
	plan.ops.push_back(mk("new", {slot, rng.pick(std::vector<long>{0, 1, 2, 3, 6, 8}) * 10, dim * 10, dim * 10, rng.range(2, 4) * 10, 1}));
	plan.ops.push_back(mk("setfv", {slot, 0}));
	plan.ops.push_back(mk("merror", {slot, 1, rng.below(6), good(), good(), 3}));	// one noise value for all frequencies, no frequency vector
	int nstd = (int)rng.range(4, 9);
	for (int q = 0; q < nstd; ++q) plan.ops.push_back(mk("add", {slot, dim == 0 ? 0 : rng.pick(std::vector<long>{0, 0, 1, 2, 2}), rng.below(2), good(), good(), 0, 0, 0, rng.below(3) * 10, rng.below(3) * 10}));
	plan.ops.push_back(mk("solve", {slot}));
	if (rng.chance(0.5)) plan.ops.push_back(mk("solve", {slot}));
    };
    if (!c12 && rng.chance(0.1)) backbone_dead((int)rng.below(NS));
    if (c12 && rng.chance(0.4)) backbone_correlated((int)rng.below(NS));
    if (rng.chance(0.7)) backbone((int)rng.below(NS));
    for (long q = 0; q < nops; ++q) {
	double u = rng.uni();
	long slot = rng.below(NS);
	if (u < 0.07) plan.ops.push_back(mk("new", {slot, code(), code(), code(), code()}));
	else if (u < 0.10) plan.ops.push_back(mk("vfree", {slot}));
	else if (u < 0.17) plan.ops.push_back(mk("setfv", {slot, rng.chance(p_bad) ? rng.range(3, 5) : rng.below(3)}));
	else if (u < 0.22) plan.ops.push_back(mk("merror", {slot, code(), rng.below(7), code(), code(), rng.below(6)}));
	else if (u < 0.27) plan.ops.push_back(mk("knob", {slot, rng.below(5), code(), code()}));
	else if (u < 0.45) plan.ops.push_back(mk("add", {slot, rng.below(5), rng.below(2), code(), code(), code(), code(), code(), code(), code(), rng.chance(0.08) ? rng.below(100) * 10 + rng.range(8, 9) : 0, 0,
		rng.chance(0.12) ? rng.range(6, 9) : 0, code(), code()}));
	else if (u < 0.52) plan.ops.push_back(mk("solve", {slot}));
	else if (u < 0.57) plan.ops.push_back(mk("addcal", {slot, rng.below(10), rng.chance(0.06) ? 9 : 0}));
	else if (u < 0.65) plan.ops.push_back(mk("mkparam", {rng.below(4), code(), code(), rng.below(7), code(), rng.below(2)}));
	else if (u < 0.69) plan.ops.push_back(mk("delparam", {code()}));
	else if (u < 0.73) plan.ops.push_back(mk("getpv", {code(), code()}));
	else if (u < 0.78) plan.ops.push_back(mk("ciq", {code(), rng.below(10)}));
	else if (u < 0.81) plan.ops.push_back(mk("delcal", {code()}));
	else if (u < 0.87) plan.ops.push_back(mk("apply", {code(), code(), code(), code(), rng.below(2), rng.chance(p_bad) ? rng.range(3, 5) : rng.below(3), rng.below(2), rng.chance(0.15) ? rng.below(100) * 10 + rng.range(8, 9) : 0, rng.chance(0.08) ? rng.below(50) * 10 + rng.range(6, 9) : 0}));
	else if (u < 0.92) plan.ops.push_back(mk("prop", {rng.below(3) + 3 * code(), rng.below(NDESC), rng.below(8)}));
	else if (u < 0.93) plan.ops.push_back(mk("prec", {code(), code()}));
	else if (u < 0.95) plan.ops.push_back(mk("save", {}));
	else if (u < 0.965) { if (!c12) plan.ops.push_back(mk(rng.chance(0.6) ? "load" : "recreate", {})); }
	else if (u < 0.97) plan.ops.push_back(mk("names", {code(), rng.below(14), code()}));
	else if (u < 0.985) plan.ops.push_back(mk("vd", {rng.below(ND), rng.below(6), code(), code(), code(), code()}));
	else backbone((int)slot);
    }
    return plan;
}
static EngineReg reg_chaos(Engine{"chaos", chaos_gen, chaos_run});
