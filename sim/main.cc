// vsim: deterministic simulator for libvna.
//   vsim run <check> <tier> <seed> <first> <count> <stride>   execute generated plans
//   vsim gen <check> <tier> <seed> <run>                      print the plan of one run
//   vsim replay <plan.json> [-v]                               execute a stored plan
#include "core.h"
#include <signal.h>
#include <unistd.h>
#include <sys/personality.h>
#include <sys/time.h>
#include <fstream>
#include <sstream>

static long g_cur_run = -1;
static int g_hang_seconds = 20;
long g_sub_index = -1;	// position inside an enumerating operation (reported when the process dies)

#ifdef VSIM_COV
extern "C" int __llvm_profile_write_file(void);
#endif
static void sim_exit(int code)
{
#ifdef VSIM_COV
    if (__llvm_profile_write_file() != 0) fprintf(stderr, "profile write failed: %s\n", strerror(errno));	// coverage build (bin/build cov): _exit would lose the counters
#endif
    _exit(code);
}
static void on_signal(int sig)
{
    char buf[128];
    const char *what = sig == SIGABRT ? "abort" : sig == SIGPROF ? "hang" : "signal";
    int n = snprintf(buf, sizeof buf, "\n{\"r\":%ld,\"died\":\"%s\",\"op\":%ld,\"sub\":%ld}\n", g_cur_run, what, g_sim.op_index, g_sub_index);
    if (write(1, buf, (size_t)n) < 0) {}
    _exit(sig == SIGPROF ? 98 : 97);
}

void sim_arm_timer(int seconds);
static void arm_timer(int seconds)
{
    struct itimerval it;
    memset(&it, 0, sizeof it);
    it.it_value.tv_sec = seconds;
    setitimer(ITIMER_PROF, &it, nullptr);
}

void sim_arm_timer(int seconds) { arm_timer(seconds); }

static Json execute(const Plan &plan, bool verbose)
{
    const Engine *eng = find_engine(plan.engine);
    if (!eng) { fprintf(stderr, "unknown engine %s\n", plan.engine.c_str()); exit(3); }
    ledger_reset();
    simfs().clear();
    g_sim = SimState();
    Ctx c;
    c.plan = &plan;
    c.verbose = verbose;
    c.strict_enomem = plan.cfg.geti("strict_enomem", 0) != 0;
    c.c11 = plan.cfg.geti("c11", 0) != 0;
    c.no_retry = plan.cfg.geti("no_retry", 0) != 0;
    g_sim.cb_errno_mode = (int)plan.cfg.geti("cb_errno", c.c11 ? (long)(((uint64_t)plan.seed * 7 + (uint64_t)plan.run) % 4) : 0);
    arm_timer(g_hang_seconds);
    eng->run(c, plan);
    arm_timer(0);
    Json r = Json::obj();
    r["r"] = plan.run;
    r["h"] = strf("%016llx", (unsigned long long)c.h);
    r["n"] = (long)plan.ops.size();
    r["fp"] = strf("%016llx", (unsigned long long)plan.fingerprint());
    r["nt"] = c.nontrivial;
    r["il"] = strf("%016llx", (unsigned long long)c.interleave);
    r["ns"] = (long)c.states.size();
    {
	uint64_t sh = 0;
	for (uint64_t s : c.states) sh ^= s;
	r["sh"] = strf("%016llx", (unsigned long long)sh);
    }
    if (c.violated) {
	Json v = Json::obj();
	v["cls"] = c.v.cls; v["site"] = c.v.site; v["msg"] = c.v.msg; v["op"] = c.v.op;
	r["v"] = v;
    }
    Json st = Json::obj();
    for (auto &p : c.stats) st[p.first] = p.second;
    st["alloc.vna.total"] = g_sim.total_vna;
    st["alloc.yaml.total"] = g_sim.total_yaml;
    r["st"] = st;
    if (verbose) r["log"] = c.text;
    { Json ma = Json::arr(); for (long v : c.main_allocs) ma.push(Json(v)); r["ma"] = ma; }
    return r;
}

// C12 replay: the plan with its faults must give the same event log as the plan without them
static Json execute_twin(const Plan &plan, bool verbose)
{
    Plan clean = plan;
    for (Op &op : clean.ops) op.f.clear();
    Json base = execute(clean, false);
    if (base.has("v")) return base;
    Json res = execute(plan, verbose);
    if (!res.has("v") && res.gets("h") != base.gets("h") && plan.cfg.geti("no_retry", 0) == 0) {
	Json v = Json::obj();
	long j = -1;
	for (size_t k = 0; k < plan.ops.size(); ++k) if (!plan.ops[k].f.empty()) { j = (long)k; break; }
	v["cls"] = "c12";
	v["site"] = (j >= 0 ? plan.ops[(size_t)j].k : std::string("?")) + ":differs";
	v["op"] = j;
	v["msg"] = strf("with the injected fault (and the failed call re-issued) the history differs from the fault-free one: event log %s, fault-free %s", res.gets("h").c_str(), base.gets("h").c_str());
	res["v"] = v;
    }
    return res;
}

int main(int argc, char **argv)
{
    // switch address-space randomisation off so that even reads of stale memory replay
    if (!getenv("VSIM_NO_REEXEC")) {
	int pers = personality(0xffffffff);
	if (pers != -1 && !(pers & ADDR_NO_RANDOMIZE)) {
	    personality(pers | ADDR_NO_RANDOMIZE);
	    setenv("VSIM_NO_REEXEC", "1", 1);
	    execv("/proc/self/exe", argv);
	}
    }
    setvbuf(stdout, nullptr, _IOLBF, 0);
    seams_init();
    signal(SIGABRT, on_signal);
    signal(SIGPROF, on_signal);
    if (const char *h = getenv("VSIM_HANG_SECONDS")) g_hang_seconds = atoi(h);
    if (argc < 2) { fprintf(stderr, "usage: vsim run|gen|replay ...\n"); return 2; }
    std::string cmd = argv[1];
    if (cmd == "run" && argc >= 8) {
	std::string check = argv[2], tier = argv[3];
	uint64_t seed = strtoull(argv[4], nullptr, 10);
	long first = atol(argv[5]), count = atol(argv[6]), stride = atol(argv[7]);
	const char *en = engine_for_check(check);
	const Engine *eng = en ? find_engine(en) : nullptr;
	if (!eng) { fprintf(stderr, "no engine for %s\n", check.c_str()); return 3; }
	std::map<std::string, long> agg;
	int nsamples = 0;
	for (long k = 0, r = first; k < count; ++k, r += stride) {
	    g_cur_run = r;
	    printf("{\"s\":%ld}\n", r);
	    Plan plan = eng->gen(check, tier, seed, r);
	    plan.check = check; plan.engine = eng->name; plan.seed = (long)seed; plan.run = r;
	    Json res = execute(plan, false);
	    if (const Json *st = res.find("st")) for (auto &p : st->o) agg[p.first] += (long)p.second.i;
	    Json line = Json::obj();
	    for (auto &p : res.o) if (p.first != "st") line[p.first] = p.second;
	    if (nsamples < 2 && k % 7 == 0) { line["sample"] = plan.to_json(); ++nsamples; }
	    printf("%s\n", line.str().c_str());
	    if (res.has("v")) {
		// state after a violation is not trusted: flush the statistics and let the
		// supervisor start a fresh worker for the remaining runs
		Json st = Json::obj();
		for (auto &p : agg) st[p.first] = p.second;
		Json o = Json::obj(); o["stats"] = st; o["next"] = k + 1;
		printf("%s\n", o.str().c_str());
		fflush(stdout);
		sim_exit(99);
	    }
	}
	Json st = Json::obj();
	for (auto &p : agg) st[p.first] = p.second;
	Json o = Json::obj(); o["stats"] = st; o["done"] = true;
	printf("%s\n", o.str().c_str());
	fflush(stdout);
	sim_exit(0);
    }
    if (cmd == "enum" && argc >= 6) {
	// C12: fail every allocation made by libvna code in a fault-armed call of the script, one at a time
	std::string check = argv[2], tier = argv[3];
	uint64_t seed = strtoull(argv[4], nullptr, 10);
	long run = atol(argv[5]);
	long from_j = argc >= 8 ? atol(argv[6]) : 0, from_k = argc >= 8 ? atol(argv[7]) : 1;
	long cap = tier == "thorough" ? 20000 : 4000;
	const char *en = engine_for_check(check);
	const Engine *eng = en ? find_engine(en) : nullptr;
	if (!eng) { fprintf(stderr, "no engine for %s\n", check.c_str()); return 3; }
	g_cur_run = run;
	Plan plan = eng->gen(check, tier, seed, run);
	plan.check = check; plan.engine = eng->name; plan.seed = (long)seed; plan.run = run;
	plan.cfg["strict_enomem"] = 1;
	printf("{\"s\":%ld}\n", run);
	Json base = execute(plan, false);
	if (base.has("v")) {
	    Json line = Json::obj();
	    for (auto &p : base.o) if (p.first != "st" && p.first != "ma") line[p.first] = p.second;
	    line["faultfree"] = true;
	    printf("%s\n", line.str().c_str());
	    fflush(stdout);
	    sim_exit(99);
	}
	std::string hA = base.gets("h");
	std::vector<long> ma;
	if (const Json *a = base.find("ma")) for (auto &v : a->a) ma.push_back((long)v.i);
	long K = 0;
	for (long v : ma) K += v;
	long stride = K > cap ? (K + cap - 1) / cap : 1;
	long done = 0, nontrivial = 0, idx = 0;
	std::map<std::string, long> agg;
	for (size_t j = 0; j < ma.size(); ++j) for (long k = 1; k <= ma[j]; ++k, ++idx) {
	    if ((long)j < from_j || ((long)j == from_j && k < from_k)) continue;
	    if (idx % stride) continue;
	    printf("{\"s\":%ld,\"j\":%zu,\"k\":%ld}\n", run, j, k);
	    Plan p2 = plan;
	    Fault f; f.t = "alloc.vna"; f.n = k;
	    p2.ops[j].f.push_back(f);
	    Json res = execute(p2, false);
	    ++done;
	    long failed_by = 0;
	    if (const Json *st = res.find("st")) { for (auto &p : st->o) agg[p.first] += (long)p.second.i; failed_by = (long)st->geti("probe.failed_by_fault"); }
	    if (failed_by) ++nontrivial;
	    // (without re-issue the history legitimately differs from the fault-free one: only the engine's own oracles decide)
	    bool bad = res.has("v") || (res.gets("h") != hA && plan.cfg.geti("no_retry", 0) == 0);
	    if (bad) {
		Json line = Json::obj();
		line["r"] = run; line["j"] = (long)j; line["k"] = k; line["h"] = res.gets("h"); line["hA"] = hA;
		line["fp"] = res.gets("fp"); line["n"] = (long)plan.ops.size();
		if (res.has("v")) line["v"] = *res.find("v");
		else {
		    Json v = Json::obj();
		    v["cls"] = "c12"; v["site"] = plan.ops[j].k + ":differs"; v["op"] = (long)j;
		    v["msg"] = strf("failing allocation %ld of operation %zu (%s) and re-issuing the call does not give the fault-free history (event log %s, fault-free %s)", k, j, plan.ops[j].k.c_str(), res.gets("h").c_str(), hA.c_str());
		    line["v"] = v;
		}
		printf("%s\n", line.str().c_str());
		Json st = Json::obj();
		for (auto &p : agg) st[p.first] = p.second;
		Json o = Json::obj(); o["stats"] = st; o["enum_next_j"] = (long)j; o["enum_next_k"] = k + 1; o["enum_done"] = done; o["enum_nt"] = nontrivial; o["enum_K"] = K;
		printf("%s\n", o.str().c_str());
		fflush(stdout);
		sim_exit(99);
	    }
	}
	Json st = Json::obj();
	for (auto &p : agg) st[p.first] = p.second;
	Json o = Json::obj(); o["stats"] = st; o["done"] = true; o["enum_done"] = done; o["enum_nt"] = nontrivial; o["enum_K"] = K; o["enum_exhaustive"] = stride == 1;
	o["r"] = run; o["fp"] = base.gets("fp"); o["ops"] = (long)plan.ops.size();
	if (run % 5 == 0) o["sample"] = plan.to_json();
	printf("%s\n", o.str().c_str());
	fflush(stdout);
	sim_exit(0);
    }
    if (cmd == "gen" && argc >= 6) {
	std::string check = argv[2], tier = argv[3];
	uint64_t seed = strtoull(argv[4], nullptr, 10);
	long run = atol(argv[5]);
	const char *en = engine_for_check(check);
	const Engine *eng = en ? find_engine(en) : nullptr;
	if (!eng) { fprintf(stderr, "no engine for %s\n", check.c_str()); return 3; }
	Plan plan = eng->gen(check, tier, seed, run);
	plan.check = check; plan.engine = eng->name; plan.seed = (long)seed; plan.run = run;
	printf("%s\n", plan.to_json().str().c_str());
	return 0;
    }
    if (cmd == "replay" && argc >= 3) {
	std::ifstream in(argv[2]);
	if (!in) { fprintf(stderr, "cannot read %s\n", argv[2]); return 3; }
	std::stringstream ss;
	ss << in.rdbuf();
	Json j = Json::parse(ss.str());
	const Json *pj = j.find("plan");
	Plan plan = Plan::from_json(pj ? *pj : j);
	bool verbose = argc >= 4 && !strcmp(argv[3], "-v");
	g_cur_run = plan.run;
	printf("{\"s\":%ld}\n", plan.run);
	Json res = plan.cfg.geti("c12_twin", 0) ? execute_twin(plan, verbose) : execute(plan, verbose);
	if (verbose) {
	    if (const Json *l = res.find("log")) fputs(l->s.c_str(), stderr);
	    Json line = Json::obj();
	    for (auto &p : res.o) if (p.first != "log") line[p.first] = p.second;
	    printf("%s\n", line.str().c_str());
	} else printf("%s\n", res.str().c_str());
	fflush(stdout);
	sim_exit(0);
    }
    fprintf(stderr, "bad arguments\n");
    return 2;
}
