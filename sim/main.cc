// vsim: deterministic simulator for libvna.
//   vsim run <check> <tier> <seed> <first> <count> <stride>   execute generated plans
//   vsim gen <check> <tier> <seed> <run>                      print the plan of one run
//   vsim replay <plan.json> [-v]                               execute a stored plan
#include "core.h"
#include <signal.h>
#include <unistd.h>
#include <sys/personality.h>
#include <sys/time.h>
#include <fstream>
#include <sstream>

static long g_cur_run = -1;
static int g_hang_seconds = 20;

static void on_signal(int sig)
{
    char buf[128];
    const char *what = sig == SIGABRT ? "abort" : sig == SIGVTALRM ? "hang" : "signal";
    int n = snprintf(buf, sizeof buf, "\n{\"r\":%ld,\"died\":\"%s\",\"op\":%ld}\n", g_cur_run, what, g_sim.op_index);
    if (write(1, buf, (size_t)n) < 0) {}
    _exit(sig == SIGVTALRM ? 98 : 97);
}

static void arm_timer(int seconds)
{
    struct itimerval it;
    memset(&it, 0, sizeof it);
    it.it_value.tv_sec = seconds;
    setitimer(ITIMER_VIRTUAL, &it, nullptr);
}

static Json execute(const Plan &plan, bool verbose)
{
    const Engine *eng = find_engine(plan.engine);
    if (!eng) { fprintf(stderr, "unknown engine %s\n", plan.engine.c_str()); exit(3); }
    ledger_reset();
    simfs().clear();
    g_sim = SimState();
    Ctx c;
    c.plan = &plan;
    c.verbose = verbose;
    arm_timer(g_hang_seconds);
    eng->run(c, plan);
    arm_timer(0);
    Json r = Json::obj();
    r["r"] = plan.run;
    r["h"] = strf("%016llx", (unsigned long long)c.h);
    r["n"] = (long)plan.ops.size();
    r["fp"] = strf("%016llx", (unsigned long long)plan.fingerprint());
    r["nt"] = c.nontrivial;
    r["il"] = strf("%016llx", (unsigned long long)c.interleave);
    r["ns"] = (long)c.states.size();
    {
	uint64_t sh = 0;
	for (uint64_t s : c.states) sh ^= s;
	r["sh"] = strf("%016llx", (unsigned long long)sh);
    }
    if (c.violated) {
	Json v = Json::obj();
	v["cls"] = c.v.cls; v["site"] = c.v.site; v["msg"] = c.v.msg; v["op"] = c.v.op;
	r["v"] = v;
    }
    Json st = Json::obj();
    for (auto &p : c.stats) st[p.first] = p.second;
    st["alloc.vna.total"] = g_sim.total_vna;
    st["alloc.yaml.total"] = g_sim.total_yaml;
    r["st"] = st;
    if (verbose) r["log"] = c.text;
    return r;
}

int main(int argc, char **argv)
{
    // switch address-space randomisation off so that even reads of stale memory replay
    if (!getenv("VSIM_NO_REEXEC")) {
	int pers = personality(0xffffffff);
	if (pers != -1 && !(pers & ADDR_NO_RANDOMIZE)) {
	    personality(pers | ADDR_NO_RANDOMIZE);
	    setenv("VSIM_NO_REEXEC", "1", 1);
	    execv("/proc/self/exe", argv);
	}
    }
    setvbuf(stdout, nullptr, _IOLBF, 0);
    seams_init();
    signal(SIGABRT, on_signal);
    signal(SIGVTALRM, on_signal);
    if (const char *h = getenv("VSIM_HANG_SECONDS")) g_hang_seconds = atoi(h);
    if (argc < 2) { fprintf(stderr, "usage: vsim run|gen|replay ...\n"); return 2; }
    std::string cmd = argv[1];
    if (cmd == "run" && argc >= 8) {
	std::string check = argv[2], tier = argv[3];
	uint64_t seed = strtoull(argv[4], nullptr, 10);
	long first = atol(argv[5]), count = atol(argv[6]), stride = atol(argv[7]);
	const char *en = engine_for_check(check);
	const Engine *eng = en ? find_engine(en) : nullptr;
	if (!eng) { fprintf(stderr, "no engine for %s\n", check.c_str()); return 3; }
	std::map<std::string, long> agg;
	int nsamples = 0;
	for (long k = 0, r = first; k < count; ++k, r += stride) {
	    g_cur_run = r;
	    printf("{\"s\":%ld}\n", r);
	    Plan plan = eng->gen(check, tier, seed, r);
	    plan.check = check; plan.engine = eng->name; plan.seed = (long)seed; plan.run = r;
	    Json res = execute(plan, false);
	    if (const Json *st = res.find("st")) for (auto &p : st->o) agg[p.first] += (long)p.second.i;
	    Json line = Json::obj();
	    for (auto &p : res.o) if (p.first != "st") line[p.first] = p.second;
	    if (nsamples < 2 && k % 7 == 0) { line["sample"] = plan.to_json(); ++nsamples; }
	    printf("%s\n", line.str().c_str());
	    if (res.has("v")) {
		// state after a violation is not trusted: flush the statistics and let the
		// supervisor start a fresh worker for the remaining runs
		Json st = Json::obj();
		for (auto &p : agg) st[p.first] = p.second;
		Json o = Json::obj(); o["stats"] = st; o["next"] = k + 1;
		printf("%s\n", o.str().c_str());
		fflush(stdout);
		_exit(99);
	    }
	}
	Json st = Json::obj();
	for (auto &p : agg) st[p.first] = p.second;
	Json o = Json::obj(); o["stats"] = st; o["done"] = true;
	printf("%s\n", o.str().c_str());
	fflush(stdout);
	_exit(0);
    }
    if (cmd == "gen" && argc >= 6) {
	std::string check = argv[2], tier = argv[3];
	uint64_t seed = strtoull(argv[4], nullptr, 10);
	long run = atol(argv[5]);
	const char *en = engine_for_check(check);
	const Engine *eng = en ? find_engine(en) : nullptr;
	if (!eng) { fprintf(stderr, "no engine for %s\n", check.c_str()); return 3; }
	Plan plan = eng->gen(check, tier, seed, run);
	plan.check = check; plan.engine = eng->name; plan.seed = (long)seed; plan.run = run;
	printf("%s\n", plan.to_json().str().c_str());
	return 0;
    }
    if (cmd == "replay" && argc >= 3) {
	std::ifstream in(argv[2]);
	if (!in) { fprintf(stderr, "cannot read %s\n", argv[2]); return 3; }
	std::stringstream ss;
	ss << in.rdbuf();
	Json j = Json::parse(ss.str());
	const Json *pj = j.find("plan");
	Plan plan = Plan::from_json(pj ? *pj : j);
	bool verbose = argc >= 4 && !strcmp(argv[3], "-v");
	g_cur_run = plan.run;
	printf("{\"s\":%ld}\n", plan.run);
	Json res = execute(plan, verbose);
	if (verbose) {
	    if (const Json *l = res.find("log")) fputs(l->s.c_str(), stderr);
	    Json line = Json::obj();
	    for (auto &p : res.o) if (p.first != "log") line[p.first] = p.second;
	    printf("%s\n", line.str().c_str());
	} else printf("%s\n", res.str().c_str());
	fflush(stdout);
	_exit(0);
    }
    fprintf(stderr, "bad arguments\n");
    return 2;
}
