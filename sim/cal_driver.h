// Feeding (simulated) measurements of standards and devices to libvna.
#pragma once
#include "cal_common.h"

struct CalEnv {
    Ctx &c;
    vnacal_t *vcp = nullptr;
    explicit CalEnv(Ctx &ctx) : c(ctx) {}
};

// indices (0-based VNA ports) covered by the measurement matrix of a standard
static inline std::vector<int> meas_ports(const SessionSpec &ss, const StdSpec &st, bool rows)
{
    bool full = st.full;
    // 16-term types need all columns (T16) / all rows (U16)
    if (ss.type == VNACAL_T16 && !rows) full = true;
    if (ss.type == VNACAL_U16 && rows) full = true;
    std::vector<int> idx;
    // a rectangular VNA measures rows 0..R-1 (detectors) x columns 0..C-1 (driving ports); always in full
    if (full || ss_rect(ss)) { int n = rows ? ss_rows(ss) : ss_cols(ss); for (int p = 0; p < n; ++p) idx.push_back(p); return idx; }
    for (int p : st.ports) idx.push_back(p - 1);
    std::sort(idx.begin(), idx.end());
    return idx;
}

struct StdCall { int rc = -1; int err = 0; size_t ncb = 0; int cat = -1; bool fired = false; std::string msg; };

// Add one standard to a vnacal_new_t.  `handles` are the libvna parameter handles for st.params.
static inline StdCall feed_standard(Ctx &c, vnacal_new_t *vnp, const SessionSpec &ss, const StdSpec &st,
	const std::vector<ParamSpec> &params, const std::vector<int> &handles, const Op *faultop)
{
    std::vector<int> ri = meas_ports(ss, st, true), ci = meas_ports(ss, st, false);
    int R = (int)ri.size(), C = (int)ci.size();
    MeasBuf m, a, b;
    bool ue = is_ue14(ss.type);
    if (!ss.ab) m.shape(R, C, ss.F);
    else { b.shape(R, C, ss.F); if (ue) a.shape(1, C, ss.F); else a.shape(C, C, ss.F); }
    for (int f = 0; f < ss.F; ++f) {
	Mat S = std_truth(ss, st, params, ss.fv[f]);
	Mat M = ss.world.measure(S, ss.fv[f]);
	Mat sub(R, C);
	for (int i = 0; i < R; ++i) for (int j = 0; j < C; ++j) sub(i, j) = f == ss.dead_f ? zc(0, 0) : M(ri[i], ci[j]);
	if (!ss.ab) { for (int i = 0; i < R; ++i) for (int j = 0; j < C; ++j) m.at(i, j, f) = toc(sub(i, j)); continue; }
	if (ue) {
	    for (int j = 0; j < C; ++j) {
		zc ref = world_a(ss.world, 1, ss.fv[f], 10 + ci[j])(0, 0) * st.ab_scale;
		a.at(0, j, f) = toc(ref);
		for (int i = 0; i < R; ++i) b.at(i, j, f) = toc(sub(i, j) * ref);
	    }
	} else {
	    Mat A = world_a(ss.world, C, ss.fv[f], 0);
	    Mat B = sub * A;
	    for (int i = 0; i < C; ++i) for (int j = 0; j < C; ++j) a.at(i, j, f) = toc(A(i, j) * st.ab_scale);
	    for (int i = 0; i < R; ++i) for (int j = 0; j < C; ++j) b.at(i, j, f) = toc(B(i, j) * st.ab_scale);
	}
    }
    StdCall out;
    int kind = st.kind, variant = st.variant;
    std::vector<int> smat, pmap;
    if (variant == 1 || kind == 4 || (kind == 2 && variant == 2)) {
	// express the standard as a matrix of handles
	if (kind == 0) { smat = {handles[0]}; pmap = {st.ports[0]}; }
	else if (kind == 1) { smat = {handles[0], VNACAL_ZERO, VNACAL_ZERO, handles[1]}; pmap = {st.ports[0], st.ports[1]}; }
	else if (kind == 2) { smat = {VNACAL_ZERO, VNACAL_ONE, VNACAL_ONE, VNACAL_ZERO}; pmap = {st.ports[0], st.ports[1]}; }
	else { smat = handles; pmap = st.ports; }
    }
    int n = (int)pmap.size();
    int pend_err = 0;
    for (int attempt = 0; attempt < 2; ++attempt) {
	LibCall lc(c, attempt == 0 ? faultop : nullptr);
	cplx *const *A = ss.ab ? a.ptrs.data() : nullptr, *const *B = ss.ab ? b.ptrs.data() : nullptr, *const *Mm = ss.ab ? nullptr : m.ptrs.data();
	int ar = a.rows, ac = a.cols;
	if (kind == 2 && variant == 2) {
	    out.rc = ss.ab ? vnacal_new_add_line(vnp, A, ar, ac, B, R, C, smat.data(), st.ports[0], st.ports[1])
			   : vnacal_new_add_line_m(vnp, Mm, R, C, smat.data(), st.ports[0], st.ports[1]);
	} else if (variant == 1 || kind == 4) {
	    out.rc = ss.ab ? vnacal_new_add_mapped_matrix(vnp, A, ar, ac, B, R, C, smat.data(), n, n, pmap.data())
			   : vnacal_new_add_mapped_matrix_m(vnp, Mm, R, C, smat.data(), n, n, pmap.data());
	} else if (kind == 0) {
	    out.rc = ss.ab ? vnacal_new_add_single_reflect(vnp, A, ar, ac, B, R, C, handles[0], st.ports[0])
			   : vnacal_new_add_single_reflect_m(vnp, Mm, R, C, handles[0], st.ports[0]);
	} else if (kind == 1) {
	    out.rc = ss.ab ? vnacal_new_add_double_reflect(vnp, A, ar, ac, B, R, C, handles[0], handles[1], st.ports[0], st.ports[1])
			   : vnacal_new_add_double_reflect_m(vnp, Mm, R, C, handles[0], handles[1], st.ports[0], st.ports[1]);
	} else if (kind == 2) {
	    out.rc = ss.ab ? vnacal_new_add_through(vnp, A, ar, ac, B, R, C, st.ports[0], st.ports[1])
			   : vnacal_new_add_through_m(vnp, Mm, R, C, st.ports[0], st.ports[1]);
	} else {
	    out.rc = ss.ab ? vnacal_new_add_line(vnp, A, ar, ac, B, R, C, handles.data(), st.ports[0], st.ports[1])
			   : vnacal_new_add_line_m(vnp, Mm, R, C, handles.data(), st.ports[0], st.ports[1]);
	}
	out.fired = g_sim.fired_vna > 0;
	out.ncb = g_sim.callbacks.size();
	out.cat = -1; out.msg.clear();
	if (out.ncb) { out.cat = g_sim.callbacks.back().category; out.msg = g_sim.callbacks.back().msg; }
	lc.done();
	out.err = lc.saved_errno;
	c11_auto(c, "vnacal_new_add_*", out.rc != 0, out.err);
	// failed because of the injected allocation failure: re-issue without it
	if (attempt == 0 && out.fired && out.rc != 0 && !c.violated) { fault_failed(c, "vnacal_new_add_*", out.err, true); pend_err = out.err; continue; }
	if (attempt == 1 && out.rc == 0) fault_recovered(c, "vnacal_new_add_*", pend_err, true);
	break;
    }
    return out;
}

// Apply calibration ci to the simulated measurement of a device; returns the corrected S per
// frequency.  mode 0: all frequencies in one call, 1: one call per frequency, 2: one call per
// frequency in reverse order.
struct ApplyResult { int rc = 0; int err = 0; std::vector<Mat> s; std::string msg; };
static inline ApplyResult apply_device(Ctx &c, vnacal_t *vcp, int ci, const SessionSpec &ss, const std::vector<double> &fq,
	long dut_seed, int mode, const Op *faultop)
{
    ApplyResult res;
    int P = ss.P, nf = (int)fq.size();
    res.s.assign((size_t)nf, Mat(P, P));
    bool ue = is_ue14(ss.type);
    // A 2x1 (or 1x2) VNA measures a two-port in two passes, the second with the device turned round; the
    // 2x2 matrix handed to vnacal_apply holds the second pass mirrored: m22 = reflection, m12 / m21 =
    // transmission of the reversed device (vnacal(3): "a 1x2 or 2x1 calibration can be used with a 2x2
    // measurement matrix").
    bool rect = ss_rect(ss);
    auto measure2 = [&](const Mat &S, double f) -> Mat {
	if (!rect) return ss.world.measure(S, f);
	Mat Srev(2, 2);
	Srev(0, 0) = S(1, 1); Srev(1, 1) = S(0, 0); Srev(0, 1) = S(1, 0); Srev(1, 0) = S(0, 1);
	Mat M1 = ss.world.measure(S, f), M2 = ss.world.measure(Srev, f), M(2, 2);
	if (ss_rows(ss) == 2) { M(0, 0) = M1(0, 0); M(1, 0) = M1(1, 0); M(1, 1) = M2(0, 0); M(0, 1) = M2(1, 0); }	// 2x1: column 0 is measured
	else { M(0, 0) = M1(0, 0); M(0, 1) = M1(0, 1); M(1, 1) = M2(0, 0); M(1, 0) = M2(0, 1); }			// 1x2: row 0 is measured
	return M;
    };
    auto one = [&](const std::vector<int> &which) -> int {
	int n = (int)which.size();
	MeasBuf m, a, b;
	std::vector<double> fv((size_t)n + 1);
	fv.resize((size_t)n);
	if (!ss.ab) m.shape(P, P, n); else { b.shape(P, P, n); if (ue) a.shape(1, P, n); else a.shape(P, P, n); }
	for (int k = 0; k < n; ++k) {
	    double f = fq[(size_t)which[k]];
	    fv[k] = f;
	    Mat S = random_dut(P, dut_seed, f, ss.world.fref);
	    Mat M = measure2(S, f);
	    if (!ss.ab) { for (int i = 0; i < P; ++i) for (int j = 0; j < P; ++j) m.at(i, j, k) = toc(M(i, j)); continue; }
	    if (rect && !ue) {	// one reference reading per pass: a diagonal 'a' matrix
		for (int j = 0; j < P; ++j) { zc ref = world_a(ss.world, 1, f, 30 + j)(0, 0); for (int i = 0; i < P; ++i) { a.at(i, j, k) = toc(i == j ? ref : zc(0, 0)); b.at(i, j, k) = toc(M(i, j) * ref); } }
		continue;
	    }
	    if (ue) {
		for (int j = 0; j < P; ++j) { zc ref = world_a(ss.world, 1, f, 20 + j)(0, 0); a.at(0, j, k) = toc(ref); for (int i = 0; i < P; ++i) b.at(i, j, k) = toc(M(i, j) * ref); }
	    } else {
		Mat A = world_a(ss.world, P, f, 5), B = M * A;
		for (int i = 0; i < P; ++i) for (int j = 0; j < P; ++j) { a.at(i, j, k) = toc(A(i, j)); b.at(i, j, k) = toc(B(i, j)); }
	    }
	}
	vnadata_t *out;
	{ LibCall lc(c); out = vnadata_alloc(sim_error_fn, (void *)(uintptr_t)0x20); lc.done(); }	// own error_arg: its reports are told apart from the vnacal_t's
	// the destination is not always a fresh object: it may hold an earlier result of the same shape with other reference
	// impedances (ordinary or per frequency), or data of another type and shape; the result must not depend on that
	int soil = (int)(VnaWorld::u(dut_seed, 4711, n, 0) * 5);
	if (out && soil >= 1) {
	    LibCall lc(c);
	    if (soil == 4) { vnadata_init(out, VPT_Z, 3, 3, 2); vnadata_set_all_z0(out, mkc(75, 0)); }
	    else {
		vnadata_init(out, VPT_S, P, P, n);
		vnadata_set_all_z0(out, mkc(75, -3));
		if (soil >= 2 && n > 0) vnadata_set_fz0(out, n - 1, 0, mkc(30, 5));
		if (soil == 3) vnadata_set_cell(out, 0, 0, 0, mkc(9, 9));
	    }
	    g_sim.callbacks.clear();
	    lc.done();
	}
	int rc, e = 0;
	LIB_RETRY(c, faultop, "vnacal_apply", e, rc != 0,
	    rc = ss.ab ? vnacal_apply(vcp, ci, fv.data(), n, a.ptrs.data(), a.rows, a.cols, b.ptrs.data(), P, P, out)
		       : vnacal_apply_m(vcp, ci, fv.data(), n, m.ptrs.data(), P, P, out);
	    res.msg.clear();
	    if (!g_sim.callbacks.empty()) res.msg = g_sim.callbacks.back().msg);
	if (rc == 0) {
	    LibCall lc(c);
	    if (vnadata_get_type(out) != VPT_S || vnadata_get_rows(out) != P || vnadata_get_columns(out) != P || vnadata_get_frequencies(out) != n) rc = -2;
	    else if (vnadata_has_fz0(out)) { rc = -2; c.violate("model", "apply:destination", strf("the result of vnacal_apply keeps per-frequency reference impedances of what the destination held before (case %d)", soil)); }
	    else for (int p = 0; p < P && rc == 0; ++p) { cplx z = vnadata_get_z0(out, p); if (__real__ z != 50 || __imag__ z != 0) { rc = -2; c.violate("model", "apply:destination", strf("the result of vnacal_apply has z0 %g%+gj on port %d: left over from what the destination held before (case %d)", __real__ z, __imag__ z, p + 1, soil)); } }
	    if (rc == 0) for (int k = 0; k < n; ++k) if (vnadata_get_frequency(out, k) != fv[(size_t)k]) { rc = -2; c.violate("model", "apply:destination", strf("frequency %d of the result is %g, requested %g", k, vnadata_get_frequency(out, k), fv[(size_t)k])); break; }
	    if (rc == 0) for (int k = 0; k < n; ++k) for (int i = 0; i < P; ++i) for (int j = 0; j < P; ++j) res.s[(size_t)which[k]](i, j) = toz(vnadata_get_cell(out, k, i, j));
	    lc.done();
	} else res.err = e;
	{ LibCall lc(c); vnadata_free(out); lc.done(); }
	return rc;
    };
    if (mode == 0) { std::vector<int> all; for (int k = 0; k < nf; ++k) all.push_back(k); res.rc = one(all); }
    else for (int k = 0; k < nf; ++k) { int idx = mode == 2 ? nf - 1 - k : k; int rc = one({idx}); if (rc != 0) { res.rc = rc; break; } }
    return res;
}

// largest deviation between corrected and true S over all frequencies
static inline double apply_error(const SessionSpec &ss, const std::vector<double> &fq, long dut_seed, const ApplyResult &r)
{
    double worst = 0;
    for (size_t k = 0; k < fq.size(); ++k) {
	Mat S = random_dut(ss.P, dut_seed, fq[k], ss.world.fref);
	for (size_t q = 0; q < S.v.size(); ++q) {
	    double d = std::abs(S.v[q] - r.s[k].v[q]);
	    if (!(d <= worst)) worst = d;	// NaN counts as the worst
	}
    }
    return worst;
}
