// Plan generator of the doc engine.  Keeps a shadow DocModel while generating so that
// most paths address existing nodes; everything is drawn from one PRNG.
#include "core.h"
#include "docmodel.h"
#include "doc_common.h"

namespace {

static const char *SIMPLE_KEYS[] = {"a", "b", "c", "foo", "bar", "name", "x1", "k_2", "Z"};
static const char *HARD_KEYS[] = {
    "my key", "two  spaces", "1st", "9", "-d", "a.b", "x[0]", "c=d", "h#", "p+q", "{m}", "t ", " l", "  ", " ",
    "back\\slash", "\\", "100%", "%s%n", "a:b", ": ", "- ", "#", "~", "null", "true", "0x1", "\"q\"", "'s'",
    "\xc3\xa9", "\xe4\xb8\xad\xe6\x96\x87", "\xc2\x85", "\xe2\x80\xa8", "\xef\xbb\xbf" "bom", "\xf0\x9f\x98\x80",
    "tab\there", "nl\nkey", "\x01", "\x7f", "a-b-c", "key with many words in it", "?", "&a", "*a", "!t", "|", ">", "@", "`",
    "[", "]", "{", "}", ",", ".", "..", "=", "+", "a\\.b", "e\\", "\t", "\n",
};
static const char *VALUES[] = {
    "v", "1", "3.14", "-2", "0x1", "1e5", "abc def", "", " ", " lead", "trail ", "a  b", "~", "null", "Null", "NULL", "true", "false", "yes",
    ": ", "- x", "-", "#c", "a #c", "key: v", "[a]", "{a: b}", "'q'", "\"dq\"", "|", "> f", "&a", "*a", "!tag", "%dir", "@", "`",
    "a\nb", "\n", "a\n", "\n\nb", "a\n\n", " a\n b", "\ta", "a\tb", "\x01", "\x7f", "\x1b[0m", "\r", "a\rb", "\r\n",
    "\xc3\xa9", "\xe4\xb8\xad\xe6\x96\x87", "\xc2\x85", "a\xc2\x85" "b", "\xe2\x80\xa8", "\xe2\x80\xa9", "\xef\xbb\xbf", "\xef\xbb\xbf" "x", "\xf0\x9f\x98\x80",
    "%s%d%n", "100%", "a=b", "=", "#", "a#b", "...", "---", "--- x", "? x", "x:", "x: ", ":x", "\\", "a\\nb", "\"", "'", "''", "it's", "\"\"",
    "0", "0o7", "1_000", ".5", "+1", ".inf", ".nan", "2001-01-01", "<<", "=x", "!!str a", "{", "}", "[", "]", ",", "a, b",
};

struct Gen {
    Rng rng;
    bool no_insert = false;	// steer around the [n+] / [+] subscripts (was needed while the insert / append finding was open)
    bool c14;		// valid UTF-8 only
    std::vector<std::string> keys;
    DNode roots[NROOTS];
    explicit Gen(uint64_t s) : rng(s), c14(false) {}

    // a valid UTF-8 encoded code point: the edges of the encoding lengths and of the surrogate gap, or anything in between
    std::string rand_utf8() {
	static const long EDGE[] = {0x7f, 0x80, 0x7ff, 0x800, 0xfff, 0x1000, 0xcfff, 0xd000, 0xd7ff, 0xe000, 0xfffd, 0x10000, 0x10ffff, 0xac00, 0xd55c, 0x3b1, 0x20ac, 0x1f600};
	long cp = rng.chance(0.5) ? EDGE[rng.below(sizeof EDGE / sizeof *EDGE)] : rng.range(0xa0, 0x10ffff);
	if (cp >= 0xd800 && cp <= 0xdfff) cp = 0xd7ff;			// surrogates are not characters
	if ((cp & 0xfffe) == 0xfffe || (cp >= 0xfdd0 && cp <= 0xfdef)) cp = 0xfffd;	// non-characters: YAML's printable set excludes some of them
	if (cp == 0x85 || cp == 0x2028 || cp == 0x2029 || cp == 0xfeff || (cp >= 0x80 && cp < 0xa0)) cp = 0xa1;	// line breaks / BOM / C1 controls are covered by the fixed lists
	std::string o;
	if (cp < 0x80) o += (char)cp;
	else if (cp < 0x800) { o += (char)(0xc0 | (cp >> 6)); o += (char)(0x80 | (cp & 0x3f)); }
	else if (cp < 0x10000) { o += (char)(0xe0 | (cp >> 12)); o += (char)(0x80 | ((cp >> 6) & 0x3f)); o += (char)(0x80 | (cp & 0x3f)); }
	else { o += (char)(0xf0 | (cp >> 18)); o += (char)(0x80 | ((cp >> 12) & 0x3f)); o += (char)(0x80 | ((cp >> 6) & 0x3f)); o += (char)(0x80 | (cp & 0x3f)); }
	return o;
    }
    std::string rand_key() {
	int cls = (int)rng.below(10);
	if (cls < 4) return SIMPLE_KEYS[rng.below(sizeof SIMPLE_KEYS / sizeof *SIMPLE_KEYS)];
	if (cls < 8) return HARD_KEYS[rng.below(sizeof HARD_KEYS / sizeof *HARD_KEYS)];
	// random bytes
	std::string k;
	int n = (int)rng.range(1, 6);
	static const char alpha[] = "ab1 _-.[]{}=#+\\%:\"'~\t";
	for (int i = 0; i < n; ++i) {
	    if (!c14 && rng.chance(0.1)) k += (char)rng.range(0x80, 0xff);
	    else if (rng.chance(0.1)) k += "\xc3\xa9";
	    else if (rng.chance(0.12)) k += rand_utf8();
	    else k += alpha[rng.below(sizeof alpha - 1)];
	}
	if (rng.chance(0.05)) k += std::string(40, 'L');
	return k;
    }
    std::string rand_value() {
	int cls = (int)rng.below(10);
	if (cls < 7) return VALUES[rng.below(sizeof VALUES / sizeof *VALUES)];
	if (cls == 7) return std::string((size_t)rng.range(100, 400), (char)('a' + rng.below(26)));
	std::string v;
	int n = (int)rng.range(0, 8);
	static const char alpha[] = "ab1 \n\t:-#'\"[]{}~|>&*!%@`,?=\\";
	for (int i = 0; i < n; ++i) {
	    if (!c14 && rng.chance(0.05)) v += (char)rng.range(0x80, 0xff);
	    else if (rng.chance(0.08)) v += "\xe2\x80\xa8";
	    else if (rng.chance(0.15)) v += rand_utf8();
	    else v += alpha[rng.below(sizeof alpha - 1)];
	}
	return v;
    }
    const std::string &pool_key() { return keys[rng.below((long)keys.size())]; }

    // random walk; returns the path, follows existing structure most of the time
    DPath gen_path(const DNode &root, bool for_set, int maxdepth, bool allow_bad) {
	DPath p;
	const DNode *cur = &root;
	static const DNode nullnode;
	int depth;
	{
	    double u = rng.uni();
	    depth = u < 0.08 ? 0 : u < 0.45 ? 1 : u < 0.75 ? 2 : u < 0.9 ? 3 : (int)rng.range(3, maxdepth);
	}
	for (int d = 0; d < depth; ++d) {
	    DElem e;
	    int kind = cur->k;
	    bool as_map;
	    if (kind == 2) as_map = !(allow_bad && rng.chance(0.04));
	    else if (kind == 3) as_map = (allow_bad && rng.chance(0.04));
	    else {
		if (!for_set && !(allow_bad && rng.chance(0.3))) break;
		as_map = rng.chance(0.6);
	    }
	    if (as_map) {
		e.t = 0;
		if (kind == 2 && !cur->keys.empty() && rng.chance(0.7)) e.key = cur->keys[rng.below((long)cur->keys.size())];
		else e.key = pool_key();
		int ix = kind == 2 ? cur->find(e.key) : -1;
		cur = ix >= 0 ? &cur->vals[ix] : &nullnode;
	    } else {
		long n = kind == 3 ? (long)cur->vals.size() : 0;
		double u = rng.uni();
		if (for_set && u < 0.15 && !no_insert) { e.t = 3; }
		else if (for_set && u < 0.3 && !no_insert) { e.t = 2; e.n = rng.chance(0.8) ? rng.range(0, n) : n + rng.range(1, 3); }
		else if (!for_set && allow_bad && u < 0.04) { e.t = rng.chance(0.5) ? 2 : 3; e.n = rng.range(0, n); }
		else if (!for_set && u < 0.05) { e.t = 1; e.n = (rng.chance(0.5) ? 4294967296L : 8589934592L) + rng.range(0, n + 1); }	// far beyond any list (and beyond the range of int)
		else {
		    e.t = 1;
		    double w = rng.uni();
		    e.n = n == 0 ? (w < 0.7 ? 0 : rng.range(1, 2)) :
			  w < 0.2 ? 0 : w < 0.4 ? n - 1 : w < 0.55 ? n : w < 0.62 ? n + 1 : w < 0.65 ? n + rng.range(2, 9) : rng.range(0, n - 1);
		}
		cur = (kind == 3 && e.t == 1 && e.n < n) ? &cur->vals[(size_t)e.n] : &nullnode;
	    }
	    p.el.push_back(e);
	}
	return p;
    }

    void put_path(Op &op, const DPath &p) {
	op.i.assign(11, 0);
	op.i[1] = p.suffix;
	op.i[7] = (long)p.el.size();
	op.s.clear();
	for (const DElem &e : p.el) {
	    if (e.t == 0) op.s.push_back("k:" + e.key);
	    else if (e.t == 1) op.s.push_back("i:" + std::to_string(e.n));
	    else if (e.t == 2) op.s.push_back("+:" + std::to_string(e.n));
	    else op.s.push_back("a:");
	}
    }
    void spell(Op &op) {
	op.i[2] = rng.chance(0.25);
	op.i[3] = (long)(rng.chance(0.5) ? 0 : rng.chance(0.6) ? 1 : 2);
	op.i[5] = (long)(rng.chance(0.7) ? 0 : rng.chance(0.6) ? 1 : rng.chance(0.5) ? 2 : rng.range(3, 4));
	op.i[6] = rng.chance(0.2);
    }
    std::string junk() {
	static const char *J[] = {"!", ")", "]", "}", "+", "*", "@", "(", "/", ",", ";", "]]", "}{", "!x"};
	return J[rng.below(sizeof J / sizeof *J)];
    }
};

static Op make_set(Gen &g, int ri, int maxdepth, double p_bad)
{
    Op op;
    op.k = "set";
    DPath p = g.gen_path(g.roots[ri], true, maxdepth, false);
    if (g.rng.chance(0.1) && !p.el.empty()) p.suffix = 3;
    bool bad = g.rng.chance(p_bad);
    if (bad && g.rng.chance(0.4)) p.suffix = (int)g.rng.range(1, 2);
    g.put_path(op, p);
    g.spell(op);
    op.i[0] = ri;
    std::string value = g.rand_value();
    op.i[4] = g.rng.chance(0.12) ? 1 : 0;
    if (bad && (p.suffix == 0 || p.suffix == 3 || g.rng.chance(0.3))) op.i[4] = g.rng.chance(0.4) ? 2 : 3;
    op.s.push_back(value);
    op.s.push_back(op.i[4] == 3 ? g.junk() : "");
    bool valid = (p.suffix == 0 || p.suffix == 3) && (op.i[4] == 0 || op.i[4] == 1);
    if (valid) {
	DResult r = dmodel_descend(g.roots[ri], p, true);
	r.node->clear();
	if (op.i[4] == 0) { r.node->k = 1; r.node->s = value; }
    }
    return op;
}

} // namespace

Plan doc_gen(const std::string &check, const std::string &tier, uint64_t seed, long run)
{
    Gen g(hash_mix(hash_mix(seed, fnv1a(check)), (uint64_t)run));
    Rng &rng = g.rng;
    Plan plan;
    bool c14 = check.compare(0, 3, "C14") == 0 || check.compare(0, 3, "C12") == 0;
    bool faulty = check.find("faulty") != std::string::npos;
    bool thorough = tier == "thorough";
    g.c14 = c14;
    // swarm configuration
    int nkeys = (int)rng.range(2, 7);
    // now and then a wide map: the hash table of a map is enlarged (and every element re-hashed) from its 21st key on
    bool wide = rng.chance(0.08);
    if (wide) nkeys = (int)rng.range(23, 50);
    for (int i = 0; i < nkeys; ++i) g.keys.push_back(wide && rng.chance(0.7) ? strf("w%d", i) : g.rand_key());
    int maxdepth = (int)rng.range(3, 6);
    int ntasks = (int)rng.range(1, 3);
    double p_bad = rng.chance(0.3) ? 0.0 : rng.chance(0.5) ? 0.05 : 0.2;
    bool c11 = check.compare(0, 3, "C11") == 0;
    bool c12 = check.compare(0, 3, "C12") == 0;
    if (c12) { p_bad = 0; plan.cfg["strict_enomem"] = 1; g.no_insert = false; }	// (insert / append subscripts are retry-safe since the repair of the known finding)
    if (check.find("noretry") != std::string::npos) plan.cfg["no_retry"] = 1;	// the failed call is not re-issued; the tree is used on as it is
    if (c11) { p_bad = rng.chance(0.5) ? 0.3 : 0.5; plan.cfg["assert_refused"] = 1; plan.cfg["c11"] = 1; }
    long nops;
    {
	double u = rng.uni();
	long cap = thorough ? 200 : 120;
	nops = u < 0.5 ? rng.range(3, 15) : u < 0.85 ? rng.range(15, 50) : rng.range(50, cap);
    }
    if (c14) nops = rng.range(2, thorough ? 60 : 35);
    if (c12) nops = rng.range(4, 18);
    plan.cfg["nkeys"] = nkeys;
    plan.cfg["maxdepth"] = maxdepth;
    plan.cfg["tasks"] = ntasks;
    plan.cfg["p_bad"] = p_bad;
    plan.cfg["read_frag"] = rng.chance(0.5) ? 0L : rng.pick(std::vector<long>{1, 2, 3, 7, 64});
    plan.cfg["bufsize"] = rng.chance(0.5) ? -1L : rng.pick(std::vector<long>{0, 1, 7, 64, 4096});
    // op-kind weights (swarm: some kinds switched off per run)
    struct W { const char *k; double w; };
    std::vector<W> weights = {{"set", 35}, {"setsub", 8}, {"del", 15}, {"get", 6}, {"type", 5}, {"count", 5},
	{"keys", 4}, {"getsub", 6}, {"copy", 4}, {"quote", 5}};
    if (c14) weights = {{"set", 60}, {"setsub", 10}, {"del", 12}, {"copy", 4}};
    if (c12) weights = {{"set", 40}, {"setsub", 10}, {"del", 12}, {"copy", 8}, {"get", 5}, {"type", 3}, {"count", 3}, {"keys", 5}, {"getsub", 5}, {"quote", 5}};
    for (auto &w : weights) if (strcmp(w.k, "set") && rng.chance(0.2)) w.w = 0;
    double wsum = 0;
    for (auto &w : weights) wsum += w.w;
    std::vector<int> task_root(ntasks);
    for (int t = 0; t < ntasks; ++t) task_root[t] = (int)rng.below(rng.chance(0.6) ? 1 : 2);	// tasks mostly share root 0

    auto emit_edit = [&](int task) {
	int ri = task_root[task];
	double u = rng.uni() * wsum;
	const char *kind = "set";
	for (auto &w : weights) { if (u < w.w) { kind = w.k; break; } u -= w.w; }
	Op op;
	std::string k = kind;
	if (k == "set") op = make_set(g, ri, maxdepth, p_bad);
	else if (k == "setsub") {
	    op.k = "setsub";
	    DPath p = g.gen_path(g.roots[ri], true, maxdepth, false);
	    double s = rng.uni();
	    p.suffix = s < 0.2 ? 1 : s < 0.4 ? 2 : s < 0.5 ? 3 : 0;
	    g.put_path(op, p);
	    g.spell(op);
	    op.i[0] = ri;
	    op.i[1] = p.suffix;
	    if (rng.chance(p_bad)) op.i[4] = 3;
	    op.i[10] = (op.i[4] != 3 && rng.chance(0.3)) ? 1 : 0;
	    op.s.push_back(g.rand_value());
	    op.s.push_back(op.i[4] == 3 ? g.junk() : "");
	    if (op.i[4] != 3) {
		DescSpec ds = desc_from_op(op);
		DResult r = dmodel_descend(g.roots[ri], ds.path, true);
		if (op.i[10]) { r.node->clear(); r.node->k = 1; r.node->s = ds.value; }
	    }
	} else if (k == "del") {
	    op.k = "del";
	    DPath p = g.gen_path(g.roots[ri], false, maxdepth, p_bad > 0);
	    double s = rng.uni();
	    p.suffix = s < 0.2 ? 3 : s < 0.26 ? 1 : s < 0.32 ? 2 : 0;
	    g.put_path(op, p);
	    g.spell(op);
	    op.i[0] = ri;
	    if (rng.chance(p_bad * 0.5)) op.i[4] = 3;
	    op.s.push_back("");
	    op.s.push_back(op.i[4] == 3 ? g.junk() : "");
	    DescSpec ds = desc_from_op(op);
	    DNode copy = g.roots[ri];
	    DResult r = dmodel_descend(copy, ds.path, false);
	    if (!r.err && ds.tail != 3) {
		if (ds.path.suffix == 0 && !ds.path.el.empty()) {
		    if (ds.path.el.back().t == 0) r.coll->keys.erase(r.coll->keys.begin() + r.index);
		    r.coll->vals.erase(r.coll->vals.begin() + r.index);
		} else r.node->clear();
		g.roots[ri] = copy;
	    }
	} else if (k == "copy") {
	    op.k = "copy";
	    DPath p = g.gen_path(g.roots[ri], true, 2, false);
	    if (rng.chance(0.4)) p.el.clear();
	    g.put_path(op, p);
	    op.i[0] = ri;
	    int si = (ri + 1 + (int)rng.below(NROOTS - 1)) % NROOTS;
	    op.i[8] = si;
	    op.s.push_back("");
	    op.s.push_back("");
	    DescSpec ds = desc_from_op(op);
	    DResult r = dmodel_descend(g.roots[ri], ds.path, true);
	    *r.node = g.roots[si];
	} else if (k == "quote") {
	    op.k = "quote";
	    op.i.assign(11, 0);
	    op.s.push_back(g.rand_key());
	    op.s.push_back(rng.chance(0.4) ? g.rand_key() : "");
	    op.i[1] = rng.chance(0.5);
	} else {
	    op.k = k;
	    DPath p = g.gen_path(g.roots[ri], false, maxdepth, p_bad > 0);
	    double s = rng.uni();
	    p.suffix = s < 0.1 ? 3 : s < 0.2 ? 1 : s < 0.3 ? 2 : 0;
	    if (k == "keys" && rng.chance(0.5)) p.suffix = 1;
	    g.put_path(op, p);
	    g.spell(op);
	    op.i[0] = ri;
	    if (rng.chance(p_bad * 0.5)) op.i[4] = 3;
	    op.s.push_back("");
	    std::string j = g.junk();
	    if (rng.chance(0.3)) j = rng.chance(0.5) ? "=v" : "#";
	    op.s.push_back(op.i[4] == 3 ? j : "");
	}
	if (op.i.size() < 11) op.i.resize(11, 0);
	op.i[9] = task;
	plan.ops.push_back(op);
    };

    // the wide map is filled first: one plain set per key of the pool, at the root or one level down
    auto emit_wide = [&]() {
	if (!wide) return;
	int ri = task_root[0];
	bool nested = rng.chance(0.3);
	for (const std::string &key : g.keys) {
	    if (rng.chance(0.08)) continue;
	    DPath p;
	    if (nested) { DElem e0; e0.t = 0; e0.key = "wide"; p.el.push_back(e0); }
	    DElem e; e.t = 0; e.key = key; p.el.push_back(e);
	    Op op; op.k = "set";
	    g.put_path(op, p);
	    g.spell(op);
	    op.i[0] = ri;
	    std::string value = g.rand_value();
	    op.s.push_back(value);
	    op.s.push_back("");
	    DResult r = dmodel_descend(g.roots[ri], p, true);
	    if (r.err) continue;
	    r.node->clear(); r.node->k = 1; r.node->s = value;
	    op.i[9] = 0;
	    plan.ops.push_back(op);
	}
    };
    if (wide) plan.cfg["wide"] = 1;
    if (!c14) {
	emit_wide();
	for (long n = 0; n < nops; ++n) emit_edit((int)rng.below(ntasks));
	plan.cfg["mode"] = "edit";
	return plan;
    }
    // C14: build, export, restart, import; repeat
    plan.cfg["mode"] = "yaml";
    int cycles = (int)rng.range(1, 3);
    for (int cy = 0; cy < cycles; ++cy) {
	long n = cy == 0 ? nops : rng.range(0, 8);
	if (cy == 0) emit_wide();
	for (long k = 0; k < n; ++k) emit_edit((int)rng.below(ntasks));
	int ri = task_root[rng.below(ntasks)];
	Op ex; ex.k = "export"; ex.i.assign(11, 0); ex.i[0] = ri; ex.i[1] = rng.chance(0.7); ex.s = {strf("f%d.yaml", cy)};
	if (faulty && rng.chance(0.4)) {
	    Fault f; double w2 = rng.uni();
	    if (w2 < 0.4) { f.t = "alloc.vna"; f.n = rng.range(1, 60); } else if (w2 < 0.6) { f.t = "alloc.yaml"; f.n = rng.range(1, 150); }
	    else if (w2 < 0.9) { f.t = "write.err"; f.n = rng.range(0, 500); f.e = rng.chance(0.5) ? ENOSPC : EIO; } else f.t = "close.err";
	    ex.f.push_back(f);
	    plan.ops.push_back(ex);
	    ex.f.clear();	// once faults stop the export can be repeated
	}
	plan.ops.push_back(ex);
	DNode saved = g.roots[ri];
	if (rng.chance(0.7)) {
	    Op rs; rs.k = "restart"; rs.i.assign(11, 0);
	    plan.ops.push_back(rs);
	    for (auto &r : g.roots) r.clear();
	} else {
	    Op d; d.k = "del"; d.i.assign(11, 0); d.i[0] = ri; d.s = {"", ""};
	    plan.ops.push_back(d);
	    g.roots[ri].clear();
	}
	if (c12 && !plan.ops.empty() && plan.ops.back().k != "restart") { Op d; d.k = "del"; d.i.assign(11, 0); d.i[0] = ri; d.s = {"", ""}; plan.ops.push_back(d); }
	Op im; im.k = rng.chance(0.5) ? "import_f" : "import_s"; im.i.assign(11, 0); im.i[0] = ri; im.i[1] = rng.chance(0.7); im.s = {strf("f%d.yaml", cy)};
	if (faulty && rng.chance(0.5)) {
	    Fault f; double w2 = rng.uni();
	    if (w2 < 0.5) { f.t = "alloc.vna"; f.n = rng.range(1, 80); } else if (w2 < 0.7) { f.t = "alloc.yaml"; f.n = rng.range(1, 200); }
	    else if (w2 < 0.85) { f.t = "read.eio"; f.n = rng.range(0, 400); } else { f.t = "read.eof"; f.n = rng.range(0, 400); }
	    im.f.push_back(f);
	    plan.ops.push_back(im);	// the engine empties the destination after an unpredicted import
	    im.f.clear();
	}
	plan.ops.push_back(im);
	g.roots[ri] = saved;
	if (rng.chance(0.25) && !c12) { Op again = im; again.k = rng.chance(0.5) ? "import_f" : "import_s"; plan.ops.push_back(again); }	// the same document once more into the tree it produced
	if (rng.chance(0.3) && !c12) {	// second import into another (empty or populated) root
	    Op im2 = im; im2.k = rng.chance(0.5) ? "import_f" : "import_s"; im2.i[0] = (ri + 1) % NROOTS;
	    plan.ops.push_back(im2);
	    int r2 = (ri + 1) % NROOTS;	// engine empties the destination when it was populated
	    if (g.roots[r2].k == 0) g.roots[r2] = saved; else g.roots[r2].clear();
	}
    }
    return plan;
}
