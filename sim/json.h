// Minimal JSON value (parse + dump).  Strings are byte strings: bytes < 0x20 and
// >= 0x7f are written as \u00XX and read back as single bytes, so arbitrary byte
// strings survive a round trip through this code and through Python's json module
// (ensure_ascii) alike.
#pragma once
#include <cstdio>
#include <cstdlib>
#include <cstring>
#include <map>
#include <memory>
#include <string>
#include <vector>
#include <stdexcept>

struct Json {
    enum T { NUL, BOOL, INT, DBL, STR, ARR, OBJ } t = NUL;
    bool b = false;
    long long i = 0;
    double d = 0;
    std::string s;
    std::vector<Json> a;
    std::vector<std::pair<std::string, Json>> o;

    Json() {}
    Json(bool v) : t(BOOL), b(v) {}
    Json(int v) : t(INT), i(v) {}
    Json(long v) : t(INT), i(v) {}
    Json(long long v) : t(INT), i(v) {}
    Json(unsigned long v) : t(INT), i((long long)v) {}
    Json(double v) : t(DBL), d(v) {}
    Json(const char *v) : t(STR), s(v) {}
    Json(const std::string &v) : t(STR), s(v) {}
    static Json arr() { Json j; j.t = ARR; return j; }
    static Json obj() { Json j; j.t = OBJ; return j; }

    Json &operator[](const std::string &k) {
	if (t == NUL) t = OBJ;
	for (auto &p : o) if (p.first == k) return p.second;
	o.emplace_back(k, Json());
	return o.back().second;
    }
    const Json *find(const std::string &k) const {
	for (auto &p : o) if (p.first == k) return &p.second;
	return nullptr;
    }
    bool has(const std::string &k) const { return find(k) != nullptr; }
    long long geti(const std::string &k, long long dflt = 0) const {
	const Json *j = find(k);
	if (!j) return dflt;
	if (j->t == INT) return j->i;
	if (j->t == DBL) return (long long)j->d;
	if (j->t == BOOL) return j->b;
	return dflt;
    }
    double getd(const std::string &k, double dflt = 0) const {
	const Json *j = find(k);
	if (!j) return dflt;
	if (j->t == INT) return (double)j->i;
	if (j->t == DBL) return j->d;
	return dflt;
    }
    std::string gets(const std::string &k, const std::string &dflt = "") const {
	const Json *j = find(k);
	if (!j || j->t != STR) return dflt;
	return j->s;
    }
    void push(const Json &j) { if (t == NUL) t = ARR; a.push_back(j); }

    static void dump_str(const std::string &s, std::string &out) {
	out += '"';
	for (unsigned char c : s) {
	    if (c == '"') out += "\\\"";
	    else if (c == '\\') out += "\\\\";
	    else if (c == '\n') out += "\\n";
	    else if (c == '\t') out += "\\t";
	    else if (c < 0x20 || c >= 0x7f) {
		char buf[8];
		snprintf(buf, sizeof buf, "\\u%04x", c);
		out += buf;
	    } else out += (char)c;
	}
	out += '"';
    }
    void dump(std::string &out) const {
	switch (t) {
	case NUL: out += "null"; break;
	case BOOL: out += b ? "true" : "false"; break;
	case INT: out += std::to_string(i); break;
	case DBL: {
	    char buf[40];
	    if (d != d) { out += "\"nan\""; break; }
	    if (d > 1.7e308) { out += "\"inf\""; break; }
	    if (d < -1.7e308) { out += "\"-inf\""; break; }
	    snprintf(buf, sizeof buf, "%.17g", d);
	    out += buf;
	    if (!strpbrk(buf, ".eE")) out += ".0";
	    break;
	}
	case STR: dump_str(s, out); break;
	case ARR:
	    out += '[';
	    for (size_t k = 0; k < a.size(); ++k) {
		if (k) out += ',';
		a[k].dump(out);
	    }
	    out += ']';
	    break;
	case OBJ:
	    out += '{';
	    for (size_t k = 0; k < o.size(); ++k) {
		if (k) out += ',';
		dump_str(o[k].first, out);
		out += ':';
		o[k].second.dump(out);
	    }
	    out += '}';
	    break;
	}
    }
    std::string str() const { std::string r; dump(r); return r; }

    // ---- parser
    struct P {
	const char *p, *e;
	void ws() { while (p < e && (*p == ' ' || *p == '\n' || *p == '\t' || *p == '\r')) ++p; }
	[[noreturn]] void fail(const char *m) { throw std::runtime_error(std::string("json: ") + m); }
	std::string pstr() {
	    std::string r;
	    if (*p != '"') fail("expected string");
	    ++p;
	    while (p < e && *p != '"') {
		if (*p == '\\') {
		    ++p;
		    switch (*p) {
		    case 'n': r += '\n'; break;
		    case 't': r += '\t'; break;
		    case 'r': r += '\r'; break;
		    case 'b': r += '\b'; break;
		    case 'f': r += '\f'; break;
		    case 'u': {
			char h[5] = {p[1], p[2], p[3], p[4], 0};
			unsigned v = (unsigned)strtoul(h, nullptr, 16);
			if (v < 256) r += (char)v;
			else {	// encode as UTF-8 (not produced by our writer)
			    if (v < 0x800) { r += (char)(0xc0 | (v >> 6)); r += (char)(0x80 | (v & 0x3f)); }
			    else { r += (char)(0xe0 | (v >> 12)); r += (char)(0x80 | ((v >> 6) & 0x3f)); r += (char)(0x80 | (v & 0x3f)); }
			}
			p += 4;
			break;
		    }
		    default: r += *p;
		    }
		    ++p;
		} else r += *p++;
	    }
	    if (p >= e) fail("unterminated string");
	    ++p;
	    return r;
	}
	Json val() {
	    ws();
	    if (p >= e) fail("eof");
	    Json j;
	    if (*p == '{') {
		j.t = OBJ; ++p; ws();
		if (*p == '}') { ++p; return j; }
		for (;;) {
		    ws();
		    std::string k = pstr();
		    ws();
		    if (*p != ':') fail("expected :");
		    ++p;
		    j.o.emplace_back(k, val());
		    ws();
		    if (*p == ',') { ++p; continue; }
		    if (*p == '}') { ++p; break; }
		    fail("expected , or }");
		}
		return j;
	    }
	    if (*p == '[') {
		j.t = ARR; ++p; ws();
		if (*p == ']') { ++p; return j; }
		for (;;) {
		    j.a.push_back(val());
		    ws();
		    if (*p == ',') { ++p; continue; }
		    if (*p == ']') { ++p; break; }
		    fail("expected , or ]");
		}
		return j;
	    }
	    if (*p == '"') {
		j.t = STR; j.s = pstr();
		if (j.s == "nan") { j.t = DBL; j.d = strtod("nan", nullptr); }
		else if (j.s == "inf") { j.t = DBL; j.d = strtod("inf", nullptr); }
		else if (j.s == "-inf") { j.t = DBL; j.d = strtod("-inf", nullptr); }
		return j;
	    }
	    if (!strncmp(p, "true", 4)) { p += 4; return Json(true); }
	    if (!strncmp(p, "false", 5)) { p += 5; return Json(false); }
	    if (!strncmp(p, "null", 4)) { p += 4; return Json(); }
	    char *end;
	    const char *q = p;
	    bool isd = false;
	    while (q < e && (strchr("+-0123456789.eE", *q))) { if (strchr(".eE", *q)) isd = true; ++q; }
	    if (q == p) fail("bad value");
	    if (isd) { j.t = DBL; j.d = strtod(p, &end); }
	    else { j.t = INT; j.i = strtoll(p, &end, 10); }
	    p = end;
	    return j;
	}
    };
    static Json parse(const std::string &text) {
	P p{text.data(), text.data() + text.size()};
	return p.val();
    }
};
