// Core of the deterministic simulator: PRNG, plans, run context, seam interface.
#pragma once
#include <cerrno>
#include <cmath>
#include <cstdarg>
#include <cstdint>
#include <cstdio>
#include <cstdlib>
#include <cstring>
#include <functional>
#include <map>
#include <set>
#include <string>
#include <vector>
#include <complex>
#include <complex.h>
#include "json.h"

#define complex _Complex
extern "C" {
#include <vnaerr.h>
#include <vnaproperty.h>
#include <vnadata.h>
#include <vnacal.h>
#include <vnaconv.h>
}
#undef complex

typedef double _Complex cplx;
typedef std::complex<double> zc;
static inline cplx mkc(double r, double i) { cplx z; __real__ z = r; __imag__ z = i; return z; }
static inline cplx toc(zc z) { return mkc(z.real(), z.imag()); }
static inline zc toz(cplx c) { return zc(__real__ c, __imag__ c); }

// ---------------------------------------------------------------- PRNG
struct Rng {
    uint64_t s[4];
    static uint64_t splitmix(uint64_t &x) {
	uint64_t z = (x += 0x9e3779b97f4a7c15ULL);
	z = (z ^ (z >> 30)) * 0xbf58476d1ce4e5b9ULL;
	z = (z ^ (z >> 27)) * 0x94d049bb133111ebULL;
	return z ^ (z >> 31);
    }
    explicit Rng(uint64_t seed = 1) { reseed(seed); }
    void reseed(uint64_t seed) { for (auto &v : s) v = splitmix(seed); }
    static inline uint64_t rotl(uint64_t x, int k) { return (x << k) | (x >> (64 - k)); }
    uint64_t next() {
	uint64_t r = rotl(s[1] * 5, 7) * 9, t = s[1] << 17;
	s[2] ^= s[0]; s[3] ^= s[1]; s[1] ^= s[2]; s[0] ^= s[3]; s[2] ^= t; s[3] = rotl(s[3], 45);
	return r;
    }
    // uniform in [0, n)
    long below(long n) { return n <= 1 ? 0 : (long)(next() % (uint64_t)n); }
    long range(long lo, long hi) { return lo + below(hi - lo + 1); }	// inclusive
    bool chance(double p) { return uni() < p; }
    double uni() { return (double)(next() >> 11) * (1.0 / 9007199254740992.0); }
    double uni(double lo, double hi) { return lo + (hi - lo) * uni(); }
    double normal() {
	double u1 = uni(), u2 = uni();
	if (u1 < 1e-300) u1 = 1e-300;
	return sqrt(-2 * log(u1)) * cos(2 * M_PI * u2);
    }
    template <class T> const T &pick(const std::vector<T> &v) { return v[below((long)v.size())]; }
    Rng fork(uint64_t tag) { uint64_t x = next() ^ (tag * 0x9e3779b97f4a7c15ULL); return Rng(x); }
};

static inline uint64_t hash_mix(uint64_t a, uint64_t b)
{
    uint64_t x = a ^ (b + 0x9e3779b97f4a7c15ULL + (a << 6) + (a >> 2));
    return Rng::splitmix(x);
}
static inline uint64_t fnv1a(const void *p, size_t n, uint64_t h = 0xcbf29ce484222325ULL)
{
    const unsigned char *c = (const unsigned char *)p;
    for (size_t k = 0; k < n; ++k) { h ^= c[k]; h *= 0x100000001b3ULL; }
    return h;
}
static inline uint64_t fnv1a(const std::string &s, uint64_t h = 0xcbf29ce484222325ULL) { return fnv1a(s.data(), s.size(), h); }

std::string strf(const char *fmt, ...) __attribute__((format(printf, 1, 2)));
std::string hexd(double d);	// exact text of a double (hex float)
std::string hexz(zc z);

// ---------------------------------------------------------------- plans
struct Fault {
    std::string t;	// kind, e.g. "alloc.vna", "alloc.yaml", "write.err", "read.eio", "read.eof", "open.fail", "close.err"
    long n = 0;		// index within the operation (k-th allocation, byte offset ...)
    long e = 0;		// errno to report
};
struct Op {
    std::string k;		// operation kind
    std::vector<long> i;	// integer arguments
    std::vector<double> d;	// real arguments
    std::vector<std::string> s;	// string arguments
    std::vector<Fault> f;	// attached faults
    long I(size_t n, long dflt = 0) const { return n < i.size() ? i[n] : dflt; }
    double D(size_t n, double dflt = 0) const { return n < d.size() ? d[n] : dflt; }
    const std::string &S(size_t n) const { static const std::string e; return n < s.size() ? s[n] : e; }
    bool has_fault() const { return !f.empty(); }
};
struct Plan {
    std::string check;		// property / check id
    std::string engine;
    Json cfg = Json::obj();	// swarm configuration of the run
    std::vector<Op> ops;
    long seed = 0, run = 0;	// informational
    Json to_json() const;
    static Plan from_json(const Json &j);
    uint64_t fingerprint() const;
};

// ---------------------------------------------------------------- seams (seams.cc)
struct CallbackRec { int category; std::string msg; int err; void *arg = nullptr; };	// arg: the error_arg the object was created with (tells objects apart)

struct FileFaults {	// stream behaviour for the streams opened during one operation
    long read_frag = 0;		// max bytes per read call (0 = unlimited)
    long read_eio_at = -1;	// byte offset at which read fails
    long read_eof_at = -1;	// byte offset of premature EOF
    long write_err_at = -1;	// byte offset at which write fails
    long write_errno = 28;	// ENOSPC
    long write_short = 0;	// max bytes accepted per write call (0 = unlimited)
    bool close_err = false;
    int open_errno = 0;		// fopen fails with this errno
    long bufsize = -1;		// setvbuf size (-1 keep default, 0 unbuffered)
};

struct SimState {
    // library-call bracket
    int in_lib = 0;
    long op_index = -1;
    // allocation accounting within the current operation
    long n_vna = 0, n_yaml = 0;
    long fail_vna = 0, fail_yaml = 0;	// k-th (1-based) allocation to fail, 0 = none
    bool fail_vna_sticky = false;	// fail every VNA allocation from fail_vna on
    long fired_vna = 0, fired_yaml = 0;
    long n_toobig = 0;		// requests above the simulated RAM ceiling (refused, not an injected fault)
    long total_vna = 0, total_yaml = 0;	// over the run
    // stream faults
    FileFaults ff;
    long fired_read_eio = 0, fired_read_eof = 0, fired_write_err = 0, fired_close_err = 0, fired_open = 0;
    // callback sink
    std::vector<CallbackRec> callbacks;
    int cb_errno_mode = 0;	// what the error function leaves in errno: 0 what it found, 1 zero, 2 ENOTTY, 3 EINTR (vnaerr(3): the library sets errno again before returning)
    // sanitizer
    int san_errors = 0;
    std::string san_report;
};
extern SimState g_sim;

// simulated file system
std::map<std::string, std::string> &simfs();
FILE *simfs_open(const char *path, const char *mode);	// same as the wrapped fopen
extern "C" void sim_error_fn(const char *message, void *arg, vnaerr_category_t category);

// allocation ledger
struct LeakInfo { size_t size; int domain; long op; void *pc; long serial; };
void ledger_reset();
size_t ledger_live();
std::vector<LeakInfo> ledger_dump();
size_t ledger_mark();			// serial number watermark
size_t ledger_forgive_yaml(long op);
std::string symbolize_pc(void *pc);
void seams_init();

// ---------------------------------------------------------------- run context
struct Violation {
    std::string cls;	// model | leak | asan | ubsan | contract
    std::string site;
    std::string msg;
    long op = -1;
};

struct Ctx {
    const Plan *plan = nullptr;
    bool verbose = false;
    uint64_t h = 0xcbf29ce484222325ULL;
    std::string text;		// event log (verbose only)
    bool violated = false;
    Violation v;
    std::map<std::string, long> stats;	// counters: faults configured/fired, probes
    std::set<uint64_t> states;		// distinct model digests seen
    uint64_t interleave = 0xcbf29ce484222325ULL;	// hash of the task-id sequence
    bool nontrivial = false;
    bool strict_enomem = false;	// C12: a call failing under an allocation fault must report ENOMEM
    bool no_retry = false;	// a call that failed because of an injected fault is NOT re-issued: the object is used on as it is
    int restart_cb = -1;	// set by the array-files "restart" operation: the new objects were created with (1) / without (0) an error function
    bool cb_installed = true;	// C11: the object under test was created with an error function
    bool c11 = false;		// C11: reporting-discipline oracle enabled (cfg c11)
    std::vector<long> main_allocs;	// per operation: VNA-domain allocations made by fault-armed calls
    long cur_op = -1;

    void log(const char *fmt, ...) __attribute__((format(printf, 2, 3)));
    void logs(const std::string &s);
    void violate(const std::string &cls, const std::string &site, const std::string &msg);
    void count(const std::string &k, long n = 1) { stats[k] += n; }
    void state(uint64_t digest) { states.insert(digest); }
};

// Bracket around a call into libvna: arms the faults attached to the operation,
// clears the callback sink, sets errno to a sentinel.
struct LibCall {
    Ctx &c;
    int saved_errno = 0;
    LibCall(Ctx &ctx, const Op *op = nullptr, int which = 0);
    ~LibCall();
    void done();	// end of the library call (captures errno)
    bool finished = false;
    bool armed = false;
};

// true when any injected fault fired inside the current library call bracket
static inline bool sim_fault_fired()
{
    return g_sim.fired_vna > 0 || g_sim.fired_yaml > 0 || g_sim.fired_read_eio || g_sim.fired_read_eof || g_sim.fired_write_err ||
	g_sim.fired_close_err || g_sim.fired_open;
}
static inline bool sim_alloc_fault_fired() { return g_sim.fired_vna > 0; }
// a library call failed while an injected fault fired: strict clause of C12 (errno ENOMEM for an
// allocation fault), bookkeeping; the caller then re-issues the call without the fault
void fault_failed(Ctx &c, const std::string &what, int err, bool alloc_fault);
// the re-issued call succeeded: so the first failure was caused by the fault alone, and (C12) an
// allocation fault must then have been reported as ENOMEM
void fault_recovered(Ctx &c, const std::string &what, int first_err, bool alloc_fault);

// Issue a library call with the operation's attached faults armed; if it fails because a fault
// fired, re-issue it once without faults ("once faults stop, progress resumes within one step").
// BODY assigns its results to variables of the enclosing scope; ERRVAR receives errno.
#define LIB_RETRY(c, opp, what, ERRVAR, FAILED, BODY) \
    for (int lib_try_ = 0, lib_pend_err_ = 0, lib_pend_alloc_ = 0;; ++lib_try_) { \
	LibCall lc((c), lib_try_ == 0 ? (opp) : nullptr); \
	BODY; \
	bool lib_fired_ = sim_fault_fired(), lib_alloc_ = sim_alloc_fault_fired(); \
	lc.done(); \
	ERRVAR = lc.saved_errno; \
	c11_auto((c), (what), (FAILED), lc.saved_errno); \
	if (lib_try_ == 0 && lib_fired_ && (FAILED) && !(c).violated) { lib_pend_err_ = lc.saved_errno; lib_pend_alloc_ = lib_alloc_; fault_failed((c), (what), lc.saved_errno, lib_alloc_); if (!(c).no_retry) continue; } \
	if (lib_try_ == 1 && !(FAILED)) fault_recovered((c), (what), lib_pend_err_, lib_pend_alloc_ != 0); \
	break; \
    }

// engines
typedef void (*EngineRun)(Ctx &, const Plan &);
typedef Plan (*EngineGen)(const std::string &check, const std::string &tier, uint64_t seed, long run);
struct Engine { const char *name; EngineGen gen; EngineRun run; };
const Engine *find_engine(const std::string &name);
const char *engine_for_check(const std::string &check);
void register_engine(const Engine &e);
struct EngineReg { EngineReg(const Engine &e) { register_engine(e); } };

// after-run check that nothing allocated inside the library is still live
void check_ledger_empty(Ctx &c, const char *when);

static const int ERRNO_SENTINEL = 0;
const char *errno_name(int e);
enum { C11_MUST = 0, C11_SILENT = 1, C11_MAY = 2 };
void c11_discipline(Ctx &c, const std::string &site, const char *fn, bool failed, int err, bool installed, int mode);
// the same with the mode looked up from the function name (per the manual pages) and the
// "installed" flag taken from c.cb_installed
void c11_auto(Ctx &c, const char *fn, bool failed, int err);
