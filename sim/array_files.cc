// File operations of the array engine (C06): set_format / set_filetype / precisions /
// cksave / save / fsave / restart / load / fload on a simulated disk, checked with
// independent readers (readers.h) and against ArrayModel.
#include "core.h"
#include "arraymodel.h"
#include "array_common.h"
#include "readers.h"

namespace {

struct Spec { int param; int form; };	// form: 0 ri, 1 ma, 2 dB, 3 PRC, 4 PRL, 5 SRC, 6 SRL, 7 IL, 8 RL, 9 VSWR

// canonical text and meaning of one specifier, from the table in vnadata(3)
static bool parse_spec(const std::string &in, Spec &sp, std::string &canon)
{
    std::string s;
    for (char ch : in) if (!isspace((unsigned char)ch)) s += (char)tolower((unsigned char)ch);
    static const struct { const char *name; int form; int param; } special[] = {
	{"prc", 3, VPT_ZIN}, {"prl", 4, VPT_ZIN}, {"src", 5, VPT_ZIN}, {"srl", 6, VPT_ZIN}, {"il", 7, VPT_S}, {"rl", 8, VPT_S}, {"vswr", 9, VPT_S}};
    for (auto &x : special) if (s == x.name) { sp.param = x.param; sp.form = x.form; canon = x.name; for (auto &c : canon) c = (char)toupper((unsigned char)c); return true; }
    static const struct { const char *name; int param; const char *canon; } params[] = {
	{"zin", VPT_ZIN, "Zin"}, {"s", VPT_S, "S"}, {"t", VPT_T, "T"}, {"u", VPT_U, "U"}, {"z", VPT_Z, "Z"}, {"y", VPT_Y, "Y"},
	{"h", VPT_H, "H"}, {"g", VPT_G, "G"}, {"a", VPT_A, "A"}, {"b", VPT_B, "B"}, {"", VPT_UNDEF, ""}};
    for (auto &p : params) {
	size_t n = strlen(p.name);
	if (s.compare(0, n, p.name) != 0) continue;
	std::string rest = s.substr(n);
	int form;
	if (rest == "" || rest == "ri") form = 0;
	else if (rest == "ma") form = 1;
	else if (rest == "db") form = 2;
	else continue;
	if (p.param == VPT_ZIN && form == 2) return false;
	if (p.param == VPT_UNDEF && rest == "") return false;
	sp.param = p.param; sp.form = form;
	canon = std::string(p.canon) + (form == 0 ? "ri" : form == 1 ? "ma" : "dB");
	return true;
    }
    return false;
}
static bool parse_format_list(const std::string &text, std::vector<Spec> &out, std::string &canon)
{
    out.clear(); canon.clear();
    size_t pos = 0;
    for (;;) {
	size_t c = text.find(',', pos);
	std::string one = text.substr(pos, c == std::string::npos ? std::string::npos : c - pos);
	Spec sp; std::string cn;
	if (!parse_spec(one, sp, cn)) return false;
	out.push_back(sp);
	if (!canon.empty()) canon += ",";
	canon += cn;
	if (c == std::string::npos) break;
	pos = c + 1;
    }
    return true;
}

struct SavedFile {
    ArrayModel m;		// object at save time
    std::vector<Spec> specs;
    int filetype = 0;		// as reported by the object after the save
    int fprec = 7, dprec = 6;
    bool good = false;		// written by a successful save with no fault fired, not damaged since
};
static std::map<std::string, SavedFile> *g_saved;
static std::map<std::string, SavedFile> &saved() { if (!g_saved) g_saved = new std::map<std::string, SavedFile>(); return *g_saved; }

static double tol_of(int prec) { return prec >= 1000 ? 1e-12 : prec >= 16 ? 1e-13 : 4.0 * pow(10.0, 1 - prec); }

static bool same_bits(zc a, zc b)
{
    // (the sign of a zero is not part of "the same value": the loaders build a + I*b, which turns -0 into +0)
    auto eq = [](double x, double y) { return (x != x && y != y) || x == y; };
    return eq(a.real(), b.real()) && eq(a.imag(), b.imag());
}
static bool near_real(double got, double want, double rel, double scale)
{
    if (!std::isfinite(want) || !std::isfinite(got)) return (want != want && got != got) || want == got;
    return fabs(got - want) <= rel * std::max(fabs(want), scale);
}

// one complex quantity written as two numbers in form 0 ri, 1 ma, 2 dB
static bool pair_matches(int form, double a, double b, zc want, double dtol, int dprec)
{
    if (form == 0) return near_real(a, want.real(), dtol, 0) && near_real(b, want.imag(), dtol, 0);
    double mag = std::abs(want), ang = std::arg(want) * 180.0 / M_PI;
    double wa = form == 2 ? 20.0 * log10(mag) : mag;
    if (!near_real(a, wa, dtol, 0) && !(form == 2 && fabs(a - wa) <= 1e-11)) return false;	// dB of magnitudes near 1: absolute floor
    if (!std::isfinite(mag) || mag == 0) return true;	// angle of zero / infinity is not meaningful
    // angle: absolute, as coarse as the least precise documented form prints it
    double atol = dprec >= 1000 ? 1e-10 : std::max(1e-10, 0.6 * pow(10.0, 3 - std::max(dprec, 3)));
    double da = fabs(b - ang);
    if (da > 180) da = fabs(360 - da);
    return da <= atol;
}

// Touchstone 1 stores Z, Y, H and G normalised to the reference resistance R
static zc ts1_norm(int ptype, int r, int k, double R, zc v)
{
    if (ptype == VPT_Z) return v / R;
    if (ptype == VPT_Y) return v * R;
    if (ptype == VPT_H) { if (r == 0 && k == 0) return v / R; if (r == 1 && k == 1) return v * R; }
    if (ptype == VPT_G) { if (r == 0 && k == 0) return v * R; if (r == 1 && k == 1) return v / R; }
    return v;
}

// the model's data in parameter type `to` (through the model's own conversion table)
static bool model_as(const ArrayModel &m, int to, ArrayModel &out)
{
    if (to == VPT_UNDEF || to == m.type) { out = m; return true; }
    const ConvEntry *e;
    if (!m.conv_valid(to, &e)) return false;
    return m.convert(out, to) == 0;
}

static int ports_from_name(const std::string &name)
{
    size_t dot = name.rfind('.');
    if (dot == std::string::npos) return -1;
    std::string s = name.substr(dot + 1);
    if (s.size() >= 3 && s[0] == 's' && s.back() == 'p') {
	bool dig = true;
	for (size_t i = 1; i + 1 < s.size(); ++i) if (!isdigit((unsigned char)s[i])) dig = false;
	if (dig) return atoi(s.c_str() + 1);
    }
    return -1;
}

// (b) what the stored bytes denote, read independently, against the model
static void check_file_against_model(Ctx &c, const std::string &name, const SavedFile &sf)
{
    const ArrayModel &m = sf.m;
    const std::string &text = simfs()[name];
    auto bad = [&](const std::string &msg) { c.violate("model", "save:file", strf("independent reader, file %s (%s): %s", name.c_str(), sf.filetype == 1 ? "Touchstone 1" : sf.filetype == 2 ? "Touchstone 2" : "NPD", msg.c_str())); };
    double dtol = tol_of(sf.dprec), ftol = sf.fprec >= 1000 ? 0 : 0.6 * pow(10.0, 1 - sf.fprec);
    int ports = m.C;
    if (sf.filetype == VNADATA_FILETYPE_TOUCHSTONE1 || sf.filetype == VNADATA_FILETYPE_TOUCHSTONE2) {
	// (generated names carry the object's port count; a minimised plan can lose the operations that gave the
	// object its shape: what such a file "denotes" is then not defined and not judged)
	if (sf.filetype == 1 && ports_from_name(name) > 0 && ports_from_name(name) != ports) { c.count("probe.extension_port_mismatch_skipped"); return; }
	TsFile t = read_touchstone(text, sf.filetype == 1 ? ports_from_name(name) : -1);
	if (!t.ok) { bad("not readable as Touchstone: " + t.error); return; }
	if ((sf.filetype == 2) != (t.version == 2)) { bad(strf("file version %d does not match the object's file type %d", t.version, sf.filetype)); return; }
	if (t.ports != ports) { bad(strf("file has %d ports, object %d", t.ports, ports)); return; }
	if ((int)t.freq.size() != m.F) { bad(strf("file has %zu frequencies, object %d", t.freq.size(), m.F)); return; }
	if (t.version == 2 && !t.saw_end) { bad("Touchstone 2 file without [End]"); return; }
	const Spec &sp = sf.specs[0];
	int ptype = sp.param == VPT_UNDEF ? m.type : sp.param;
	static const char letters[] = "?STUZYHGAB";
	if (ptype < 1 || ptype > 9 || t.param != letters[ptype]) { bad(strf("option line says %c, requested parameter type %d", t.param, ptype)); return; }
	const char *fm = sp.form == 0 ? "RI" : sp.form == 1 ? "MA" : "DB";
	if (t.fmt != fm) { bad(strf("option line says %s, requested %s", t.fmt.c_str(), fm)); return; }
	if (!near_real(t.R, m.z0[0].real(), dtol, 0)) { bad(strf("R %s, object z0 %s", hexd(t.R).c_str(), hexd(m.z0[0].real()).c_str())); return; }
	bool mixed = false;
	for (int p = 1; p < ports; ++p) if (m.z0[p] != m.z0[0]) mixed = true;
	if (t.version == 2 && mixed) {
	    if ((int)t.reference.size() != ports) { bad("ports have different impedances but the file has no complete [Reference]"); return; }
	    for (int p = 0; p < ports; ++p) if (!near_real(t.reference[p], m.z0[p].real(), dtol, 0)) { bad(strf("[Reference] %d = %s, object %s", p, hexd(t.reference[p]).c_str(), hexd(m.z0[p].real()).c_str())); return; }
	}
	if (t.version == 1 && mixed) { bad("Touchstone 1 file written for ports with different impedances"); return; }
	ArrayModel x;
	if (!model_as(m, ptype, x)) { bad("saved although the data cannot be converted to the requested parameter type"); return; }
	double R = m.z0[0].real();
	for (int f = 0; f < m.F; ++f) {
	    if (!near_real(t.freq[f], m.freq[f], ftol, 0)) { bad(strf("frequency %d = %s, object %s", f, hexd(t.freq[f]).c_str(), hexd(m.freq[f]).c_str())); return; }
	    double scale = 0;
	    for (auto &z : x.cell[f]) if (std::isfinite(std::abs(z))) scale = std::max(scale, std::abs(z));
	    for (int q = 0; q < ports * ports; ++q) {
		zc want = x.cell[f][q];
		int r = q / ports, k = q % ports;
		// (the requested parameter type does not exist for this matrix - the conversion is singular in the model's arithmetic: whatever the file holds there is not judged)
		if (!std::isfinite(want.real()) || !std::isfinite(want.imag())) { c.count("probe.singular_conversion_in_file_not_judged"); continue; }
		bool normalised = t.version == 1 && ptype != VPT_S;	// (also with R = 1: the saver still goes through an S copy renormalised to R)
		if (t.version == 1) want = ts1_norm(ptype, r, k, R, want);
		zc got = t.data[f][q];
		bool ok = pair_matches(sp.form, t.raw[f][q].first, t.raw[f][q].second, want, dtol, sf.dprec);
		if (!ok && normalised) {
		    // the normalised numbers are reached through an S-parameter copy with z0 = 1: equal to
		    // rounding, where rounding grows with the distance of the values from the reference
		    double nscale = 0, cond = 1;
		    for (int q2 = 0; q2 < ports * ports; ++q2) {
			double a2 = std::abs(ts1_norm(ptype, q2 / ports, q2 % ports, R, x.cell[f][q2]));
			nscale = std::max(nscale, a2);
			if (a2 > 0 && std::isfinite(a2)) cond = std::max(cond, std::max(a2, 1 / a2));
		    }
		    double atol = sf.dprec >= 1000 ? 1e-9 : std::max(1e-9, 0.6 * pow(10.0, 3 - std::max(sf.dprec, 3)));
		    if (cond > 1e3) { c.count("probe.ts1_normalised_skipped_illconditioned"); continue; }
		    double rel = 1.5 * dtol + 1e-13 * cond * cond + (sp.form == 0 ? 0 : atol * M_PI / 180);
		    if (sp.form == 2 && std::abs(want) > 0) rel += 0.12 * dtol * fabs(20 * log10(std::abs(want)));	// p digits of the dB value
		    ok = std::abs(got - want) <= rel * std::abs(want) + (1e-12 + 1e-13 * cond * cond) * std::max(nscale, 1.0);	// (normalised values are ratios computed from S-parameters of order 1)
		    if (ok) c.count("probe.ts1_normalised_to_rounding");
		}
		if (!ok) { bad(strf("f=%d cell(%d,%d): file %s, object %s (normalised for v1: %d, reference %g)", f, r, k, hexz(got).c_str(), hexz(want).c_str(), t.version == 1, R)); return; }
	    }
	}
	c.count(strf("probe.reader_ts%d_ok", t.version));
	return;
    }
    NpdFile n = read_npd(text);
    if (!n.ok) { bad("not readable as NPD: " + n.error); return; }
    if (n.ports != ports) { bad(strf("#:ports %d, object %d", n.ports, ports)); return; }
    if ((int)n.rows.size() != m.F) { bad(strf("%zu data lines, object has %d frequencies", n.rows.size(), m.F)); return; }
    if (n.per_frequency_z0 != m.per_f) { bad("#:z0 mode does not match the object's impedance mode"); return; }
    if (!m.per_f) {
	if ((int)n.z0.size() != ports) { bad(strf("#:z0 lists %zu impedances, object has %d ports", n.z0.size(), ports)); return; }
	for (int p = 0; p < ports; ++p) if (!near_real(n.z0[p].real(), m.z0[p].real(), dtol, 0) || !near_real(n.z0[p].imag(), m.z0[p].imag(), dtol, 0)) { bad(strf("#:z0 port %d = %s, object %s", p, hexz(n.z0[p]).c_str(), hexz(m.z0[p]).c_str())); return; }
    }
    if (n.parameters.size() != sf.specs.size()) { bad(strf("#:parameters lists %zu forms, requested %zu", n.parameters.size(), sf.specs.size())); return; }
    for (size_t i = 0; i < sf.specs.size(); ++i) {
	Spec sp; std::string cn;
	if (!parse_spec(n.parameters[i], sp, cn)) { bad("#:parameters holds an unknown specifier " + n.parameters[i]); return; }
	int want_param = sf.specs[i].param == VPT_UNDEF ? m.type : sf.specs[i].param;
	if (sp.param != want_param || sp.form != sf.specs[i].form) { bad("#:parameters entry " + n.parameters[i] + " differs from the requested form"); return; }
    }
    for (int f = 0; f < m.F; ++f) {
	const std::vector<double> &row = n.rows[f];
	size_t col = 0;
	auto need = [&](size_t k) { return col + k <= row.size(); };
	if (!need(1)) { bad("empty data line"); return; }
	if (!near_real(row[col], m.freq[f], ftol, 0)) { bad(strf("frequency %d = %s, object %s", f, hexd(row[col]).c_str(), hexd(m.freq[f]).c_str())); return; }
	++col;
	if (m.per_f) {
	    if (!need(2 * (size_t)ports)) { bad("data line too short for per-frequency impedances"); return; }
	    for (int p = 0; p < ports; ++p) {
		zc want = m.fz0[f][p];
		if (!near_real(row[col], want.real(), dtol, 0) || !near_real(row[col + 1], want.imag(), dtol, 0)) { bad(strf("f=%d z0 of port %d: file %s%+gj, object %s", f, p, hexd(row[col]).c_str(), row[col + 1], hexz(want).c_str())); return; }
		col += 2;
	    }
	}
	for (const Spec &s0 : sf.specs) {
	    int ptype = s0.param == VPT_UNDEF ? m.type : s0.param;
	    ArrayModel x;
	    if (!model_as(m, ptype, x)) { bad(strf("saved although the data cannot be converted to parameter type %d", ptype)); return; }
	    const std::vector<zc> &d = x.cell[f];
	    double w = 2 * M_PI * m.freq[f];
	    auto cmp_complex = [&](zc want, const char *what, int idx) -> bool {
		if (!need(2)) { bad("data line too short"); return false; }
		double a = row[col], b = row[col + 1];
		col += 2;
		if (ptype != m.type && (!std::isfinite(want.real()) || !std::isfinite(want.imag()))) { c.count("probe.singular_conversion_in_file_not_judged"); return true; }
		bool ok = pair_matches(s0.form, a, b, want, dtol, sf.dprec);
		if (!ok) bad(strf("f=%d %s[%d] form %d: file (%s, %s), object %s", f, what, idx, s0.form, hexd(a).c_str(), hexd(b).c_str(), hexz(want).c_str()));
		return ok;
	    };
	    auto cmp_real = [&](double want, const char *what, int idx) -> bool {
		if (!need(1)) { bad("data line too short"); return false; }
		double a = row[col++];
		if (!near_real(a, want, dtol, 0)) { bad(strf("f=%d %s[%d]: file %s, object %s", f, what, idx, hexd(a).c_str(), hexd(want).c_str())); return false; }
		return true;
	    };
	    if (s0.form <= 2) {
		int cnt = ptype == VPT_ZIN ? ports : x.R * ports;
		for (int q = 0; q < cnt; ++q) if (!cmp_complex(d[q], "cell", q)) return;
	    } else if (s0.form >= 3 && s0.form <= 6) {
		for (int p = 0; p < ports; ++p) {
		    zc z = d[p];
		    double zr = z.real(), zi = z.imag(), mag2 = zr * zr + zi * zi;
		    double r1, r2;
		    switch (s0.form) {
		    case 3: r1 = mag2 / zr; r2 = -1.0 / (w * (mag2 / zi)); break;	// parallel R, C
		    case 4: r1 = mag2 / zr; r2 = (mag2 / zi) / w; break;		// parallel R, L
		    case 5: r1 = zr; r2 = -1.0 / (w * zi); break;			// series R, C
		    default: r1 = zr; r2 = zi / w; break;				// series R, L
		    }
		    if (!cmp_real(r1, "R", p) || !cmp_real(r2, "C/L", p)) return;
		}
	    } else if (s0.form == 7) {
		for (int r = 0; r < ports; ++r) for (int k = 0; k < ports; ++k) { if (r == k) continue; if (!cmp_real(-20.0 * log10(std::abs(d[(size_t)r * ports + k])), "IL", r * ports + k)) return; }
	    } else if (s0.form == 8) {
		for (int p = 0; p < ports; ++p) if (!cmp_real(-20.0 * log10(std::abs(d[(size_t)p * ports + p])), "RL", p)) return;
	    } else {
		for (int p = 0; p < ports; ++p) { double a = std::abs(d[(size_t)p * ports + p]); if (!cmp_real((1.0 + a) / fabs(1.0 - a), "VSWR", p)) return; }
	    }
	}
	if (col != row.size()) { bad(strf("data line %d has %zu columns, the header implies %zu", f, row.size(), col)); return; }
    }
    c.count("probe.reader_npd_ok");
}

} // namespace

void array_files_reset() { saved().clear(); }

bool array_file_op(Ctx &c, const Op &op, int oi, vnadata_t **obj, ArrayModel *models,
	std::function<void(int, const char *)> compare, std::function<void(int)> resync)
{
    const std::string &k = op.k;
    vnadata_t *v = obj[oi];
    ArrayModel &m = models[oi];
    auto sync_sticky = [&]() {
	LibCall lc(c);
	m.filetype = vnadata_get_filetype(v);
	const char *f = vnadata_get_format(v);
	m.has_format = f != nullptr; m.format = f ? f : "";
	lc.done();
    };
    if (k == "fmt") {
	bool null = op.I(1) != 0;
	std::string text = op.S(0);
	std::vector<Spec> specs; std::string canon;
	bool valid = null || parse_format_list(text, specs, canon);
	int rc, e;
	LIB_RETRY(c, &op, "vnadata_set_format", e, rc != 0, rc = vnadata_set_format(v, null ? nullptr : text.c_str()));
	c.log(" set_format(%s) -> %d", null ? "NULL" : text.c_str(), rc);
	if (c.violated) return true;
	if (valid && rc != 0 && c.no_retry && sim_alloc_fault_fired()) {
	    // failed for lack of memory and not re-issued: nothing may have changed, and the object is used on
	    if (e != ENOMEM) { c.violate("model", "fmt:errno", strf("set_format failed under an injected allocation failure with errno %s", errno_name(e))); return true; }
	    c.count("probe.failed_by_fault_not_reissued");
	    compare(oi, "set_format that failed for lack of memory");
	    return true;
	}
	if (valid && rc != 0) { c.violate("model", "fmt:rc", strf("set_format(\"%s\") failed (errno %s)", text.c_str(), errno_name(e))); return true; }
	if (!valid) {
	    if (rc == 0) { c.violate("model", "fmt:rc", strf("set_format(\"%s\") accepted an invalid specifier list", text.c_str())); return true; }
	    // (not re-issued after an injected allocation failure: the call may have run out of memory before it saw what is wrong with the list)
	    bool by_fault = c.no_retry && sim_alloc_fault_fired() && e == ENOMEM;
	    if (e != EINVAL && !by_fault) { c.violate("model", "fmt:errno", strf("set_format(\"%s\") refused with errno %s", text.c_str(), errno_name(e))); return true; }
	    c.count(by_fault ? "probe.failed_by_fault_not_reissued" : "probe.refused");
	} else { m.has_format = !null; m.format = null ? "" : canon; }
	compare(oi, valid ? "set_format" : "refused set_format");
	return true;
    }
    if (k == "ftype" || k == "fprec" || k == "dprec") {
	int n = (int)op.I(1);
	bool valid = k == "ftype" ? (n >= 0 && n <= 3) : n >= 1;
	int rc, e;
	{ LibCall lc(c, &op); rc = k == "ftype" ? vnadata_set_filetype(v, (vnadata_filetype_t)n) : k == "fprec" ? vnadata_set_fprecision(v, n) : vnadata_set_dprecision(v, n); lc.done(); e = lc.saved_errno; }
	if (c.violated) return true;
	if (valid != (rc == 0)) { c.violate("model", k + ":rc", strf("%s(%d) returned %d", k.c_str(), n, rc)); return true; }
	if (!valid && e != EINVAL) { c.violate("model", k + ":errno", strf("%s(%d) refused with errno %s", k.c_str(), n, errno_name(e))); return true; }
	if (valid) { if (k == "ftype") m.filetype = n; else if (k == "fprec") m.fprec = n; else m.dprec = n; }
	else c.count("probe.refused");
	compare(oi, valid ? k.c_str() : "refused setter");
	return true;
    }
    if (k == "save") {
	std::string name = op.S(0).empty() ? "d.npd" : op.S(0);
	bool use_fsave = op.I(1) != 0, ck_first = op.I(2) != 0;
	int rck = 0, eck = 0;
	bool fired = false;
	if (ck_first) {
	    LibCall lc(c);
	    rck = vnadata_cksave(v, name.c_str());
	    lc.done();
	    eck = lc.saved_errno;
	}
	int rc = 0, e = 0, crc = 0;
	size_t ncb = 0;
	int pend_err = 0; bool pend_alloc = false;
	for (int attempt = 0; attempt < 2; ++attempt) {
	    LibCall lc(c, attempt == 0 ? &op : nullptr);
	    crc = 0;
	    if (use_fsave) {
		FILE *fp = simfs_open(name.c_str(), "w");
		rc = -1;
		if (fp) {
		    rc = vnadata_fsave(v, fp, name.c_str());
		    int se = errno, in = g_sim.in_lib;
		    g_sim.in_lib = 0;
		    crc = fclose(fp);
		    g_sim.in_lib = in;
		    errno = se;
		}
	    } else rc = vnadata_save(v, name.c_str());
	    fired = sim_fault_fired();
	    bool alloc_only = sim_alloc_fault_fired() && !(g_sim.fired_write_err || g_sim.fired_close_err || g_sim.fired_open);
	    ncb = g_sim.callbacks.size();
	    lc.done();
	    e = lc.saved_errno;
	    // vnaerr(3): a failing fopen / write / fclose is a system error and is reported ("fopen: name: ..."): when the save was failed by
	    // the simulated stream (not by an allocation) and the object has an error function, that function must have been called
	    if (c.c11 && attempt == 0 && rc != 0 && !alloc_only && (g_sim.fired_write_err || g_sim.fired_close_err || g_sim.fired_open) && c.cb_installed && ncb == 0 && !use_fsave) {
		c.violate("c11", "save:silent", strf("vnadata_save(\"%s\") failed on a stream error (errno %s) without calling the error function", name.c_str(), errno_name(e)));
		return true;
	    }
	    // failed because of the injected fault: repeat once the fault is gone
	    if (attempt == 0 && fired && (rc != 0 || crc != 0) && !c.violated) { c.count("probe.save_faulted"); fault_failed(c, "vnadata_save", e, alloc_only && rc != 0); pend_err = e; pend_alloc = alloc_only && rc != 0; continue; }
	    if (attempt == 1 && rc == 0 && crc == 0) fault_recovered(c, "vnadata_save", pend_err, pend_alloc);
	    if (fired) c.count("probe.save_ok_despite_fault");
	    fired = false;
	    break;
	}
	c.log(" cksave=%d %s(%s) -> %d close=%d", ck_first ? rck : 9, use_fsave ? "fsave" : "save", name.c_str(), rc, crc);
	if (c.violated) return true;
	saved().erase(name);
	if (!fired) {
	    if (ck_first && (rck == 0) != (rc == 0)) {
		c.violate("model", "save:cksave", strf("vnadata_cksave(\"%s\") returned %d (errno %s) but %s returned %d (errno %s)", name.c_str(), rck, errno_name(eck), use_fsave ? "vnadata_fsave" : "vnadata_save", rc, errno_name(e)));
		return true;
	    }
	    if (rc != 0 && e != EINVAL) { c.violate("model", "save:errno", strf("save refused with errno %s, expected EINVAL", errno_name(e))); return true; }
	    if (rc != 0) c.count("probe.save_refused");
	} else {
	    c.count("probe.save_faulted");
	    if (rc == 0 && crc == 0) c.count("probe.save_ok_despite_fault");
	}
	sync_sticky();
	// a save that reports success (and whose stream closed cleanly) must have written the whole
	// file, fault or no fault: an absorbed write error would otherwise pass as success
	if (rc == 0 && crc == 0) {
	    SavedFile sf;
	    sf.m = m;
	    sf.filetype = m.filetype;
	    sf.fprec = m.fprec; sf.dprec = m.dprec;
	    std::string canon;
	    if (!m.has_format || !parse_format_list(m.format, sf.specs, canon)) { c.violate("model", "save:format", "format string after a successful save is not a valid specifier list: " + m.format); return true; }
	    sf.good = true;
	    check_file_against_model(c, name, sf);
	    if (c.violated) return true;
	    saved()[name] = sf;
	    c.count("probe.save_ok");
	    c.count(strf("save.filetype.%d", sf.filetype));
	    for (auto &sp : sf.specs) c.count(strf("save.form.%d", sp.form));
	    c.nontrivial = true;
	}
	compare(oi, "save (object data must be unchanged)");
	return true;
    }
    if (k == "load") {
	std::string name = op.S(0).empty() ? "d.npd" : op.S(0);
	if (!simfs().count(name)) return true;
	bool use_fload = op.I(1) != 0;
	int rc = 0, e = 0;
	bool fired = false;
	size_t ncb = 0; std::string cbmsg;
	int file_type_before = m.filetype;
	int pend_err = 0; bool pend_alloc = false;
	for (int attempt = 0; attempt < 2; ++attempt) {
	    LibCall lc(c, attempt == 0 ? &op : nullptr);
	    if (attempt > 0) vnadata_set_filetype(v, (vnadata_filetype_t)file_type_before);
	    if (use_fload) {
		FILE *fp = simfs_open(name.c_str(), "r");
		rc = -1;
		if (fp) {
		    rc = vnadata_fload(v, fp, name.c_str());
		    int se = errno, in = g_sim.in_lib;
		    g_sim.in_lib = 0;
		    fclose(fp);
		    g_sim.in_lib = in;
		    errno = se;
		}
	    } else rc = vnadata_load(v, name.c_str());
	    bool storage = g_sim.fired_read_eio || g_sim.fired_read_eof || g_sim.fired_open;
	    fired = sim_fault_fired();
	    ncb = g_sim.callbacks.size();
	    cbmsg.clear();
	    if (ncb) cbmsg = g_sim.callbacks[0].msg;
	    lc.done();
	    e = lc.saved_errno;
	    // a load that failed for lack of memory is repeated; storage faults change what is read
	    if (attempt == 0 && fired && !storage && rc != 0 && !c.violated) { c.count("probe.load_faulted"); fault_failed(c, "vnadata_load", e, true); pend_err = e; pend_alloc = true; continue; }
	    if (attempt == 1 && rc == 0) fault_recovered(c, "vnadata_load", pend_err, pend_alloc);
	    if (!storage) fired = false;
	    break;
	}
	c.log(" %s(%s) -> %d errno=%s", use_fload ? "fload" : "load", name.c_str(), rc, rc ? errno_name(e) : "-");
	if (c.violated) return true;
	auto it = saved().find(name);
	bool good = it != saved().end() && it->second.good && !fired;
	if (good) {
	    // a name without a recognised extension is read as the destination's current file type
	    // (NPD when that is unset): only then is the outcome predicted
	    size_t dot = name.rfind('.');
	    std::string ext = dot == std::string::npos ? "" : name.substr(dot + 1);
	    bool known_ext = ext == "ts" || ext == "npd" || ports_from_name(name) >= 0;
	    int dst_type = file_type_before;
	    if (!known_ext && !(dst_type == it->second.filetype || (dst_type == 0 && it->second.filetype == 3) ||
			(dst_type != 0 && dst_type != 3 && it->second.filetype != 3))) good = false;
	}
	if (good) {
	    const SavedFile &sf = it->second;
	    bool loadable = false;
	    for (auto &sp : sf.specs) if (sp.form <= 6) loadable = true;
	    if (rc != 0) {
		if (loadable) { c.violate("model", "load:rc", strf("file %s written by a successful save (format %s) is rejected by the loader: errno %s %s", name.c_str(), sf.m.format.c_str(), errno_name(e), cbmsg.c_str())); return true; }
		c.count("probe.load_scalar_only_rejected");
		resync(oi);
		compare(oi, "failed load");
		return true;
	    }
	    // (c) the loaded object equals the saved one in whichever listed type the loader chose
	    int T, R, C, F;
	    { LibCall lc(c); T = vnadata_get_type(v); R = vnadata_get_rows(v); C = vnadata_get_columns(v); F = vnadata_get_frequencies(v); lc.done(); }
	    auto bad = [&](const std::string &msg) { c.violate("model", "load:value", strf("load of %s (saved as %s, file type %d, dprecision %d): %s", name.c_str(), sf.m.format.c_str(), sf.filetype, sf.dprec, msg.c_str())); };
	    // which of the saved forms of type T carries the most direct representation
	    // (rectangular, then polar / R-C-L forms, then dB)
	    int best_form = -1;
	    for (auto &sp : sf.specs) {
		int pt = sp.param == VPT_UNDEF ? sf.m.type : sp.param;
		if (pt != T || sp.form > 6) continue;
		int rank = sp.form == 0 ? 0 : T == VPT_ZIN ? (sp.form >= 3 ? 1 : 2) : sp.form;
		int brank = best_form < 0 ? 99 : best_form == 0 ? 0 : T == VPT_ZIN ? (best_form >= 3 ? 1 : 2) : best_form;
		if (rank < brank) best_form = sp.form;
	    }
	    if (best_form < 0) { bad(strf("loaded parameter type %d is none of the saved forms", T)); return true; }
	    ArrayModel x;
	    if (!model_as(sf.m, T, x)) { bad("loaded type cannot be derived from the saved object"); return true; }
	    if (R != x.R || C != x.C || F != x.F) { bad(strf("dimensions %dx%dx%d, expected %dx%dx%d", F, R, C, x.F, x.R, x.C)); return true; }
	    double dtol = tol_of(sf.dprec), ftol = sf.fprec >= 1000 ? 0 : 0.6 * pow(10.0, 1 - sf.fprec);
	    bool normalised = sf.filetype == 1 && T != VPT_S && sf.m.z0[0].real() != 1.0;
	    bool exact = sf.dprec >= 1000 && best_form == 0 && !normalised;
	    double rlctol = dtol * 10 + 4 * (sf.fprec >= 1000 ? 0 : pow(10.0, 1 - sf.fprec));	// C and L are tied to the printed frequency
	    for (int f = 0; f < F && !c.violated; ++f) {
		double fr; { LibCall lc(c); fr = vnadata_get_frequency(v, f); lc.done(); }
		if (!near_real(fr, x.freq[f], ftol, 0)) { bad(strf("frequency %d = %s, saved %s", f, hexd(fr).c_str(), hexd(x.freq[f]).c_str())); break; }
		for (int p = 0; p < x.P(); ++p) {
		    cplx z; { LibCall lc(c); z = vnadata_get_fz0(v, f, p); lc.done(); }
		    zc want = sf.m.z0_at(f)[p];
		    if (!near_real(__real__ z, want.real(), dtol, 0) || !near_real(__imag__ z, want.imag(), dtol, 0)) { bad(strf("z0[f=%d][port=%d] = %s, saved %s", f, p, hexz(toz(z)).c_str(), hexz(want).c_str())); break; }
		}
		if (c.violated) break;
		for (int q = 0; q < R * C; ++q) {
		    cplx a; { LibCall lc(c); a = vnadata_get_cell(v, f, q / C, q % C); lc.done(); }
		    zc got = toz(a), want = x.cell[f][q];
		    if (normalised) {	// the file holds (and rounds) the normalised numbers
			double R0 = sf.m.z0[0].real();
			got = ts1_norm(T, q / C, q % C, R0, got);
			want = ts1_norm(T, q / C, q % C, R0, want);
		    }
		    bool ok;
		    // (a value the saved object has only through a conversion that is singular in the model's arithmetic is not judged)
		    if (T != sf.m.type && (!std::isfinite(want.real()) || !std::isfinite(want.imag()))) ok = true;
		    else if (exact) ok = same_bits(got, want);
		    else if (!std::isfinite(std::abs(want)) || !std::isfinite(std::abs(got))) ok = true;	// non-finite values have no portable text form
		    else if (best_form == 0) ok = near_real(got.real(), want.real(), dtol * 1.5, 0) && near_real(got.imag(), want.imag(), dtol * 1.5, 0);
		    else if (best_form == 1 || best_form == 2) {
			double mg = std::abs(got), mw = std::abs(want);
			ok = pair_matches(best_form, best_form == 2 ? 20.0 * log10(mg) : mg, std::arg(got) * 180.0 / M_PI, want, dtol * 1.5, sf.dprec);
		    } else ok = std::abs(got - want) <= rlctol * std::abs(want);
		    if (!ok && normalised) {
			double nscale = 0, cond = 1;
			for (int q2 = 0; q2 < R * C; ++q2) {
			    double a2 = std::abs(ts1_norm(T, q2 / C, q2 % C, sf.m.z0[0].real(), x.cell[f][q2]));
			    nscale = std::max(nscale, a2);
			    if (a2 > 0 && std::isfinite(a2)) cond = std::max(cond, std::max(a2, 1 / a2));
			}
			double atol = sf.dprec >= 1000 ? 1e-9 : std::max(1e-9, 0.6 * pow(10.0, 3 - std::max(sf.dprec, 3)));
			if (cond > 1e3) { c.count("probe.ts1_normalised_skipped_illconditioned"); continue; }
			double rel = 2.5 * dtol + 2e-13 * cond * cond + (best_form ? atol * M_PI / 180 : 0);
			if (best_form == 2 && std::abs(want) > 0) rel += 0.12 * dtol * fabs(20 * log10(std::abs(want)));
			ok = std::abs(got - want) <= rel * std::abs(want) + (1e-11 + 1e-13 * cond * cond) * std::max(nscale, 1.0);
		    }
		    if (!ok) { bad(strf("f=%d cell %d = %s, saved %s (stored in form %d)%s", f, q, hexz(got).c_str(), hexz(want).c_str(), best_form, exact ? ": must be bit-exact at maximum precision" : "")); break; }
		}
	    }
	    if (c.violated) return true;
	    c.count("probe.load_ok");
	    if (exact) c.count("probe.load_exact");
	    c.nontrivial = true;
	} else {
	    c.count(fired ? "probe.load_faulted" : "probe.load_unpredicted");
	}
	resync(oi);
	compare(oi, "load");
	return true;
    }
    if (k == "restart") {
	for (int q = 0; q < NOBJ; ++q) { LibCall lc(c); vnadata_free(obj[q]); lc.done(); }
	check_ledger_empty(c, "restart (all vnadata objects freed)");
	for (int q = 0; q < NOBJ; ++q) {
	    LibCall lc(c);
	    obj[q] = vnadata_alloc(op.I(1) ? sim_error_fn : nullptr, nullptr);
	    lc.done();
	    models[q] = ArrayModel();
	    c.restart_cb = op.I(1) ? 1 : 0;	// (the engine updates its per-object "error function installed" flags from this)
	}
	c.count("fault.restart.fired");
	return true;
    }
    return false;
}

// ------------------------------------------------------------------ generator
static const char *MATRIX_PARAMS[] = {"S", "T", "U", "Z", "Y", "H", "G", "A", "B"};

void array_gen_file_ops(Rng &rng, Plan &plan, ArrayModel *m, const std::string &check, bool thorough)
{
    bool faults = check.find("faulty") != std::string::npos;
    bool c12 = check.compare(0, 3, "C12") == 0;
    auto mk = [](const char *k, std::initializer_list<long> i) { Op o; o.k = k; o.i = i; return o; };
    int cycles = (int)rng.range(1, thorough ? 4 : 3);
    if (c12) cycles = 1;
    for (int cy = 0; cy < cycles; ++cy) {
	int o = (int)rng.below(NOBJ);
	// shape: mostly square S/Z/Y of 1..6 ports or a 2x2 of any type, sometimes Zin
	int t, R, C;
	double u = rng.uni();
	if (u < 0.5) { t = rng.pick(std::vector<int>{VPT_S, VPT_Z, VPT_Y}); R = C = (int)rng.range(1, 6); }
	else if (u < 0.85) { t = (int)rng.range(1, 9); R = C = 2; if (t == VPT_S || t == VPT_Z || t == VPT_Y) R = C = 2; }
	else if (u < 0.95) { t = VPT_ZIN; R = 1; C = (int)rng.range(1, 5); }
	else { t = (int)rng.below(VPT_NTYPES); R = C = (int)rng.range(0, 3); if (t == VPT_ZIN) R = 1; if (t >= VPT_T && t <= VPT_B && t != VPT_Z && t != VPT_Y) R = C = 2; }
	if (!ArrayModel::dims_ok(t, R, C)) { t = VPT_S; R = C = 2; }
	int F = (int)rng.range(rng.chance(0.05) ? 0 : 1, 4);
	plan.ops.push_back(mk("init", {o, t, R, C, F}));
	m[o].init(t, R, C, F);
	// impedances
	double z = rng.uni();
	if (z < 0.35) {}
	else if (z < 0.55) { plan.ops.push_back(mk("z0vset", {o, (long)rng.below(1000000), rng.chance(0.5) ? 3 : 2})); }
	else if (z < 0.75) { plan.ops.push_back(mk("z0vset", {o, (long)rng.below(1000000), 0})); }
	else if (z < 0.85) { plan.ops.push_back(mk("z0vset", {o, (long)rng.below(1000000), 1})); }
	else if (F > 0) { for (int f = 0; f < F; ++f) plan.ops.push_back(mk("fz0vset", {o, f, (long)rng.below(1000000), (long)rng.below(2)})); }
	// data
	{
	    long sd = (long)rng.below(1000000);
	    int cls = rng.chance(0.8) ? 0 : 9;
	    plan.ops.push_back(mk("fill", {o, sd, cls}));
	    if (rng.chance(0.15) && F > 0 && R * C > 0) {	// value magnitudes 1e-12 .. 1e12
		plan.ops.push_back(mk("setm", {o, (int)rng.below(F), (long)rng.below(1000000), 1}));
	    }
	}
	int saves = (int)rng.range(1, 3);
	for (int sv = 0; sv < saves; ++sv) {
	    // precisions
	    if (rng.chance(0.6)) { long p = rng.chance(0.25) ? 1000 : rng.range(1, 17); if (rng.chance(0.03)) p = rng.range(-1, 0); plan.ops.push_back(mk("dprec", {o, p})); }
	    if (rng.chance(0.5)) { long p = rng.chance(0.25) ? 1000 : rng.range(1, 17); if (rng.chance(0.03)) p = rng.range(-1, 0); plan.ops.push_back(mk("fprec", {o, p})); }
	    // file kind
	    int ports = C;
	    std::string name;
	    double fk = rng.uni();
	    int kind;	// 1 ts1, 2 ts2, 3 npd, 0 no extension
	    if (fk < 0.3) { kind = 1; name = strf("f%d_%d.s%dp", cy, sv, ports); }
	    else if (fk < 0.5) { kind = 2; name = strf("f%d_%d.ts", cy, sv); }
	    else if (fk < 0.9) { kind = 3; name = strf("f%d_%d.npd", cy, sv); }
	    else { kind = 0; name = strf("f%d_%d.dat", cy, sv); }
	    if (rng.chance(0.25)) plan.ops.push_back(mk("ftype", {o, rng.chance(0.05) ? rng.range(4, 6) : rng.range(0, 3)}));
	    // format list
	    if (rng.chance(0.8)) {
		Op f = mk("fmt", {o, 0});
		std::string text;
		int nspec = kind == 3 || kind == 0 ? (int)rng.range(1, 4) : (rng.chance(0.92) ? 1 : 2);
		for (int q = 0; q < nspec; ++q) {
		    std::string sp;
		    double w = rng.uni();
		    bool touch = kind == 1 || kind == 2;
		    if (w < (touch ? 0.85 : 0.5)) {
			const char *p = touch && rng.chance(0.9) ? rng.pick(std::vector<const char *>{"S", "Z", "Y", "H", "G"}) : MATRIX_PARAMS[rng.below(9)];
			if (rng.chance(0.15)) p = "";
			const char *co = rng.pick(std::vector<const char *>{"ri", "ma", "dB", ""});
			if (!*p && !*co) co = "ri";
			sp = std::string(p) + co;
		    } else if (w < 0.65) sp = std::string("Zin") + rng.pick(std::vector<const char *>{"ri", "ma", ""});
		    else sp = rng.pick(std::vector<const char *>{"PRC", "PRL", "SRC", "SRL", "IL", "RL", "VSWR"});
		    if (rng.chance(0.1)) for (auto &ch : sp) ch = rng.chance(0.5) ? (char)toupper((unsigned char)ch) : (char)tolower((unsigned char)ch);
		    if (rng.chance(0.02)) sp = rng.pick(std::vector<const char *>{"Q", "Sxx", "ZindB", "", "S ri x"});
		    if (!text.empty()) text += ",";
		    text += sp;
		}
		f.s = {text};
		plan.ops.push_back(f);
	    } else if (rng.chance(0.3)) plan.ops.push_back(mk("fmt", {o, 1}));
	    Op s = mk("save", {o, rng.chance(0.3) ? 1 : 0, rng.chance(0.7) ? 1 : 0});
	    s.s = {name};
	    if (faults && rng.chance(0.4)) {
		Fault ft;
		double w = rng.uni();
		if (w < 0.4) { ft.t = "alloc.vna"; ft.n = rng.range(1, 12); }
		else if (w < 0.7) { ft.t = "write.err"; ft.n = rng.range(0, 600); ft.e = rng.chance(0.5) ? ENOSPC : EIO; }
		else if (w < 0.85) ft.t = "close.err";
		else { ft.t = "open.fail"; ft.e = rng.chance(0.5) ? EACCES : ENOSPC; }
		s.f.push_back(ft);
	    }
	    plan.ops.push_back(s);
	    // load it back
	    if (rng.chance(0.9)) {
		int dst = rng.chance(0.5) ? o : (int)rng.below(NOBJ);
		if (rng.chance(0.6)) { plan.ops.push_back(mk("restart", {0, rng.chance(0.8) ? 1 : 0})); }
		else if (rng.chance(0.3)) plan.ops.push_back(mk("realloc", {dst, 1}));
		Op l = mk("load", {dst, rng.chance(0.3) ? 1 : 0});
		l.s = {name};
		if (faults && rng.chance(0.3)) {
		    Fault ft;
		    double w = rng.uni();
		    if (w < 0.5) { ft.t = "alloc.vna"; ft.n = rng.range(1, 20); }
		    else if (w < 0.75) { ft.t = "read.eio"; ft.n = rng.range(0, 500); }
		    else { ft.t = "read.eof"; ft.n = rng.range(0, 500); }
		    l.f.push_back(ft);
		}
		plan.ops.push_back(l);
		// the shadow models are only used for index choices; after a restart they are empty
		break;
	    }
	}
    }
    (void)m;
}
