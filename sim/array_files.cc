#include "core.h"
#include "arraymodel.h"
#include "array_common.h"
bool array_file_op(Ctx &, const Op &, int, vnadata_t **, ArrayModel *,
	std::function<void(int, const char *)>, std::function<void(int)>)
{
    return false;
}
void array_gen_file_ops(Rng &, Plan &, ArrayModel *, const std::string &, bool) {}
