// cal engine: vnacal_t as a table of named calibrations and parameter handles (C16), standard
// sets and repeated solves (C20), equivalent descriptions (C17), interpolation (C10).
// Logical clients (calibration sessions, parameter churner, catalog task) are interleaved by
// the seeded scheduler in the generator; the plan is the interleaving.
#include "core.h"
#include "cal_common.h"
#include "cal_driver.h"
#include <array>
#include "doc_common.h"

namespace {

static const int NSESS = 4;
static const char *CAL_NAMES[] = {"alpha", "beta", "~", "null", "cal with spaces", "\xc3\xa9talon", "alp", "alpha beta",	// (some are prefixes of others, two are what YAML reads as null when unquoted)
    "n08", "n09", "n10", "n11", "n12", "n13", "n14", "n15", "n16", "n17", "n18", "n19"};	// (used by the table-filling scenario only: the calibration table grows 1 -> 8 -> 16 -> ...)
static const int NNAMES = 20;

struct LiveParam {
    ParamSpec spec;
    int handle = -1;
    bool live = false;
    bool solved = false;		// unknown parameter: a solve that used it has succeeded
    double solved_lo = 0, solved_hi = 0;	// band of the most recent such solve
    int solved_points = 0;
};
struct Session {
    bool active = false;
    vnacal_new_t *vnp = nullptr;
    SessionSpec spec;
    bool fv_set = false;
    bool solved = false;	// holds a solved, not yet added calibration
    SessionSpec solved_spec;	// the standards that calibration was solved from (standards added later do not change it)
    bool m_error = false;	// measurement-error modelling is switched on (vnacal_new_set_m_error)
    bool solved_m_error = false;	// ... and was when the kept calibration was solved
    int failed_solves = 0;
    std::vector<int> added_params;	// indices of parameters used by accepted standards
    bool tainted = false;		// an add failed under an injected fault: registrations it left behind are C12's business
    std::map<int, int> handle_map;	// handle -> parameter this session bound it to (a handle deleted
					// while the session uses it keeps meaning that parameter here)
};
struct CalSlot {
    int ci = -1;
    std::string name;
    SessionSpec spec;
    std::vector<ParamSpec> params;	// snapshot of the parameter list the spec refers to
    bool determining = false;
    bool has_unknown = false;
    bool has_vector = false;
    bool pure_trl = false;	// exactly through + unknown reflect + unknown line: the closed-form solution, in every order of entry
    bool solved_with_m_error = false;
    double tol_floor = 0;	// after a save/load cycle the error terms carry the file's precision
    DNode props;
};
struct CalWorld {
    Ctx &c;
    vnacal_t *vcp = nullptr;
    bool cb = true;
    std::vector<LiveParam> params;
    Session sess[NSESS];
    std::map<std::string, CalSlot> table;
    DNode global_props;
    bool solo_twin = true;
    int fprec = 7, dprec = 6;		// documented defaults
    struct SavedCal { CalSlot slot; std::vector<Mat> probe; bool probe_ok = false; };
    struct SavedFile { std::vector<SavedCal> cals; DNode global_props; int fprec = 7, dprec = 6; bool good = false; };
    std::map<std::string, SavedFile> files;
    explicit CalWorld(Ctx &ctx) : c(ctx) {}
};

// a freshly returned handle may reuse the number of a deleted parameter: entries of the dead
// parameter can no longer address anything and get an impossible handle
static void note_new_handle(CalWorld &w, int h)
{
    for (auto &o : w.params) if (!o.live && o.handle == h) o.handle = 1000000;
}
static bool exact_vector(const ParamSpec &p) { return p.kind != 2 || (p.kf.size() >= 5 && p.gclass <= 2); }

static int resolve_param(CalWorld &w, long pref)
{
    if (pref < 0 || w.params.empty()) return -1;
    return (int)(pref % (long)w.params.size());
}
static int handle_of(CalWorld &w, long pref, ParamSpec *spec_out)
{
    if (pref < 0 || w.params.empty()) {
	int h = pref == -2 ? VNACAL_OPEN : pref == -3 ? VNACAL_SHORT : VNACAL_MATCH;
	if (spec_out) { spec_out->kind = 0; spec_out->predefined = h; }
	return h;
    }
    LiveParam &lp = w.params[(size_t)(pref % (long)w.params.size())];
    if (spec_out) *spec_out = lp.spec;
    return lp.handle;
}

// ---- classification of the accumulated standards (C20) -------------------------------
// 2: fewer measured cells than in-system unknowns (must fail, EDOM)
// 1: contains a textbook determining set of fully known standards (must succeed)
// 0: nothing asserted
static bool exact_vector(const ParamSpec &p);
// rectangular (2x1 / 1x2) sessions: only the positive claim is made.  Determining = every standard fully known,
// three well separated reflections on the port that both drives and detects (port 1) and a through 1-2.
static int classify_rect(const SessionSpec &ss, const std::vector<ParamSpec> &params)
{
    for (const StdSpec &st : ss.stds) for (int pi : st.params) if (!params[(size_t)pi].known() || !exact_vector(params[(size_t)pi])) return 0;
    double f0 = ss.fv.empty() ? 1e9 : ss.fv[0];
    if (world_class_of(ss.type) == W16) {
	// 1x2 T16 / 2x1 U16: eleven unknown terms, two equations per fully specified two-port standard.  Determining (as
	// libvna's own tests do it): enough generic standards - here at least nine 2x2 standards of scalar parameters whose
	// matrices are pairwise well apart (nothing else is asserted for these shapes)
	std::vector<std::array<zc, 4>> kept;
	for (const StdSpec &st : ss.stds) {
	    if (st.kind != 3) continue;
	    std::array<zc, 4> m; bool scal = true;
	    for (int k = 0; k < 4; ++k) { const ParamSpec &q = params[(size_t)st.params[(size_t)k]]; if (q.kind != 1) scal = false; m[(size_t)k] = param_truth(q, f0); }
	    if (!scal) continue;
	    if (st.ports[0] == 2) { std::swap(m[0], m[3]); std::swap(m[1], m[2]); }
	    bool far = true;
	    for (auto &y : kept) { double d = 0; for (int k = 0; k < 4; ++k) d = std::max(d, std::abs(m[(size_t)k] - y[(size_t)k])); if (d < 0.25) far = false; }
	    if (far) kept.push_back(m);
	}
	return kept.size() >= 9 ? 1 : 0;
    }
    std::vector<zc> kept;
    for (const StdSpec &st : ss.stds) {
	zc g; bool have = false;
	if (st.kind == 0 && st.ports[0] == 1) { g = param_truth(params[(size_t)st.params[0]], f0); have = true; }
	if (st.kind == 1) for (int k = 0; k < 2; ++k) if (st.ports[(size_t)k] == 1) { g = param_truth(params[(size_t)st.params[(size_t)k]], f0); have = true; }
	if (!have) continue;
	bool far = true; for (zc y : kept) if (std::abs(g - y) < 0.6) far = false;
	if (far) kept.push_back(g);
    }
    if (kept.size() < 3) return 0;
    for (const StdSpec &st : ss.stds) if (st.kind == 2) return 1;
    return 0;
}
static int classify(const SessionSpec &ss, const std::vector<ParamSpec> &params)
{
    if (ss_rect(ss)) return classify_rect(ss, params);
    int P = ss.P;
    bool ue = is_ue14(ss.type);
    WorldClass cls = world_class_of(ss.type);
    bool need_full = cls != W8;
    // counting: a measured cell M[i][j] yields an equation of the linear system only if the standard
    // connects VNA port j to port i (everything else is leakage, which the 8/10/12-term types keep
    // outside the system); the 16-term types use every measured cell
    auto equations = [&](const StdSpec &st, int col) -> long {	// col < 0: all columns
	std::vector<int> ri = meas_ports(ss, st, true), ci = meas_ports(ss, st, false);
	auto has = [](const std::vector<int> &v, int x) { return std::find(v.begin(), v.end(), x) != v.end(); };
	if (cls == W16) return col < 0 ? (long)ri.size() * (long)ci.size() : (has(ci, col) ? (long)ri.size() : 0);
	std::vector<std::vector<int>> groups;
	if (st.kind == 0) groups = {{st.ports[0] - 1}};
	else if (st.kind == 1) groups = {{st.ports[0] - 1}, {st.ports[1] - 1}};
	else { std::vector<int> g; for (int p : st.ports) g.push_back(p - 1); groups = {g}; }
	long n = 0;
	for (auto &g : groups) for (int j : g) {
	    if (!has(ci, j) || (col >= 0 && j != col)) continue;
	    for (int i : g) if (has(ri, i)) ++n;
	}
	return n;
    };
    if (ss.dead_f >= 0) return 0;	// an instrument that reads zero at one frequency: nothing is claimed (the solve has to fail there, cleanly)
    bool any_unknown = false;
    for (const StdSpec &st : ss.stds) for (int pi : st.params) if (!params[(size_t)pi].known()) any_unknown = true;
    // a correlated parameter brings an unknown and a soft constraint: neither the counting nor the accuracy claim is made
    for (const StdSpec &st : ss.stds) for (int pi : st.params) if (params[(size_t)pi].corr) return 0;
    if (ue && !any_unknown) {
	// one independent linear system per driven column
	for (int col = 0; col < P; ++col) {
	    long eq = 0;
	    for (const StdSpec &st : ss.stds) eq += equations(st, col);
	    if (eq < cal_unknowns(ss.type, P, true)) return 2;
	}
    } else if (ue) {
	// with unknown standard parameters the columns are coupled through them: total count only
	long eq = 0, up = 0;
	std::set<int> seen;
	for (const StdSpec &st : ss.stds) { eq += equations(st, -1); for (int pi : st.params) if (!params[(size_t)pi].known() && seen.insert(pi).second) ++up; }
	if (eq < (long)cal_unknowns(ss.type, P, true) * P + up) return 2;
    } else {
	long eq = 0;
	for (const StdSpec &st : ss.stds) eq += equations(st, -1);
	long unknown_params = 0;
	std::set<int> seen;
	for (const StdSpec &st : ss.stds) for (int pi : st.params) if (!params[(size_t)pi].known() && seen.insert(pi).second) ++unknown_params;
	if (eq < cal_unknowns(ss.type, P, false) + unknown_params) return 2;
    }
    // determining: three well separated known reflections on every port and a known through
    // (or line) between every pair of ports; full measurement matrices where leakage is modelled
    // interpolated standards are only as exact as their knots allow: a session using a coarse one
    // is not held to the truth
    for (const StdSpec &st : ss.stds) for (int pi : st.params) if (!exact_vector(params[(size_t)pi])) return 0;
    // the positive clause of the property speaks of known standards: a session that also holds an unknown one is
    // held to "must solve" only when the solver starts near the truth (scalar initial guess within 0.45 of the true
    // value); whether the iteration converges from further away is not claimed
    for (const StdSpec &st : ss.stds) for (int pi : st.params) {
	const ParamSpec &q = params[(size_t)pi];
	if (q.kind == 3 && (!q.kf.empty() || std::abs(q.guess - q.value * std::polar(1.0, st.rot)) > 0.45)) return 0;
    }
    auto known_std = [&](const StdSpec &st) { for (int pi : st.params) if (!params[(size_t)pi].known()) return false; return true; };
    double f0 = ss.fv.empty() ? 1e9 : ss.fv[0];
    // through - reflect - line on a two-port 8/10-term calibration: a known through, the same unknown reflection on
    // both ports, a line with known (matched) reflections and one unknown transmission not in phase with the
    // through; nothing else unknown
    if ((cls == W8 || cls == W10) && P == 2) {
	bool thr = false; int refl_u = -1, line_u = -1; bool other_unknown = false;
	for (const StdSpec &st : ss.stds) {
	    if (need_full && !st.full) continue;
	    if (st.kind == 2) { thr = true; continue; }
	    bool kn = known_std(st);
	    if (kn) continue;
	    if (st.kind == 1 && st.params[0] == st.params[1] && std::abs(param_truth(params[(size_t)st.params[0]], f0)) > 0.5) { if (refl_u >= 0 && refl_u != st.params[0]) other_unknown = true; refl_u = st.params[0]; continue; }
	    if (st.kind == 3 && params[(size_t)st.params[0]].known() && params[(size_t)st.params[3]].known() && st.params[1] == st.params[2]) {
		zc l = param_truth(params[(size_t)st.params[1]], f0);
		double ph = fabs(std::arg(l)) * 180 / M_PI;
		if (std::abs(l) > 0.5 && ph > 20 && ph < 160 && std::abs(param_truth(params[(size_t)st.params[0]], f0)) < 0.2 && std::abs(param_truth(params[(size_t)st.params[3]], f0)) < 0.2) { if (line_u >= 0 && line_u != st.params[1]) other_unknown = true; line_u = st.params[1]; continue; }
	    }
	    other_unknown = true;
	}
	if (thr && refl_u >= 0 && line_u >= 0 && refl_u != line_u && !other_unknown) return 1;
    }
    // 8/10-term types: three separated known reflections on one port determine that port; a known through carries
    // the determination to the port at its other end.  Determining = every port is reached from a fully reflected one.
    if ((cls == W8 || cls == W10) && P >= 2 && !any_unknown) {
	std::vector<bool> good((size_t)P + 1, false);
	for (int p = 1; p <= P; ++p) {
	    std::vector<zc> kept;
	    for (const StdSpec &st : ss.stds) {
		if (!known_std(st) || (need_full && !st.full)) continue;
		std::vector<zc> g;
		if (st.kind == 0 && st.ports[0] == p) g.push_back(param_truth(params[(size_t)st.params[0]], f0));
		if (st.kind == 1) for (int k = 0; k < 2; ++k) if (st.ports[(size_t)k] == p) g.push_back(param_truth(params[(size_t)st.params[(size_t)k]], f0));
		for (zc x : g) { bool far = true; for (zc y : kept) if (std::abs(x - y) < 0.6) far = false; if (far) kept.push_back(x); }
	    }
	    good[(size_t)p] = kept.size() >= 3;
	}
	// (the throughs must join all ports into one group: the transmission terms between two groups that are
	// each determined by their own reflections are not)
	std::vector<bool> reached((size_t)P + 1, false);
	for (int p = 1; p <= P; ++p) if (good[(size_t)p]) { reached[(size_t)p] = true; break; }
	bool grew = true;
	while (grew) {
	    grew = false;
	    for (const StdSpec &st : ss.stds) {
		if (st.kind != 2 || (need_full && !st.full)) continue;
		int a = st.ports[0], b = st.ports[1];
		if (reached[(size_t)a] != reached[(size_t)b]) { reached[(size_t)a] = reached[(size_t)b] = true; grew = true; }
	    }
	}
	bool all = true;
	for (int p = 1; p <= P; ++p) if (!reached[(size_t)p]) all = false;
	if (all) return 1;
	return 0;
    }
    for (int p = 1; p <= P; ++p) {
	std::vector<zc> g;
	for (const StdSpec &st : ss.stds) {
	    if (!known_std(st) || (need_full && !st.full)) continue;
	    if (st.kind == 0 && st.ports[0] == p) g.push_back(param_truth(params[(size_t)st.params[0]], f0));
	    if (st.kind == 1) for (int k = 0; k < 2; ++k) if (st.ports[k] == p) g.push_back(param_truth(params[(size_t)st.params[(size_t)k]], f0));
	}
	int distinct = 0;
	std::vector<zc> kept;
	for (zc x : g) { bool far = true; for (zc y : kept) if (std::abs(x - y) < 0.6) far = false; if (far) { kept.push_back(x); ++distinct; } }
	if (distinct < 3) return 0;
    }
    for (int i = 1; i <= P; ++i) for (int j = i + 1; j <= P; ++j) {
	bool have = false;
	for (const StdSpec &st : ss.stds) {
	    if (!known_std(st) || (need_full && !st.full)) continue;
	    if (st.kind == 2 && ((st.ports[0] == i && st.ports[1] == j) || (st.ports[0] == j && st.ports[1] == i))) have = true;
	}
	if (!have) return 0;
    }
    if (cls == W16 && P >= 2) {
	// sixteen-term: require the classic redundant set of double reflects on ports 1,2
	if (P > 2) return 0;
	int need[8][2] = {{0, 0}, {-1, -1}, {1, 1}, {-1, 1}, {1, -1}, {-1, 0}, {0, 1}, {1, 0}};	// M-M, S-S, O-O, S-O, O-S, S-M, M-O, O-M
	for (auto &nd : need) {
	    bool have = false;
	    for (const StdSpec &st : ss.stds) {
		if (st.kind != 1 || !known_std(st) || !st.full) continue;
		zc g0 = param_truth(params[(size_t)st.params[0]], f0), g1 = param_truth(params[(size_t)st.params[1]], f0);
		if (st.ports[0] == 2 && st.ports[1] == 1) std::swap(g0, g1);
		if (std::abs(g0 - zc(nd[0], 0)) < 1e-9 && std::abs(g1 - zc(nd[1], 0)) < 1e-9) have = true;
	    }
	    if (!have) return 0;
	}
    }
    return 1;
}

// exactly a through, the same unknown reflection on both ports and a line (MATCH, l; l, MATCH) with unknown l on a
// two-port 8/10-term calibration: vnacal_new_solve uses the closed-form TRL solution, whatever the order of entry
static bool is_pure_trl(const SessionSpec &ss, const std::vector<ParamSpec> &params)
{
    WorldClass cls = world_class_of(ss.type);
    if (ss_rect(ss) || ss.P != 2 || (cls != W8 && cls != W10) || ss.stds.size() != 3) return false;
    int t = 0, r = 0, l = 0;
    for (const StdSpec &st : ss.stds) {
	if (st.kind == 2) ++t;
	else if (st.kind == 1 && st.params[0] == st.params[1] && params[(size_t)st.params[0]].kind == 3) ++r;
	else if (st.kind == 3 && st.params[1] == st.params[2] && params[(size_t)st.params[1]].kind == 3) {
	    const ParamSpec &a = params[(size_t)st.params[0]], &b = params[(size_t)st.params[3]];
	    if (a.kind == 0 && a.predefined == VNACAL_MATCH && b.kind == 0 && b.predefined == VNACAL_MATCH) ++l;
	}
    }
    return t == 1 && r == 1 && l == 1;
}

// the frequency range a parameter must cover when a calibration registers it: its own (param_frange), and, for a correlated
// parameter, that of the parameter it is correlated with, which is registered along with it (and so on down the chain)
static bool registered_frange(const CalWorld &w, int pi, double &lo, double &hi)
{
    bool have = false;
    for (int guard = 0; pi >= 0 && guard < 64; ++guard) {
	const ParamSpec &p = w.params[(size_t)pi].spec;
	double l, h;
	if (param_frange(p, l, h)) { lo = have ? std::max(lo, l) : l; hi = have ? std::min(hi, h) : h; have = true; }
	if (!p.corr) break;
	pi = p.corr_other;
    }
    return have;
}

// ---- table check after every catalogue-changing operation ----------------------------
static void check_table(CalWorld &w, const Op &op)
{
    Ctx &c = w.c;
    if (c.violated) return;
    int end;
    { LibCall lc(c); end = vnacal_get_calibration_end(w.vcp); lc.done(); }
    int maxci = -1;
    for (auto &kv : w.table) maxci = std::max(maxci, kv.second.ci);
    if (end != maxci + 1) { c.violate("model", op.k + ":end", strf("get_calibration_end = %d, highest live index is %d", end, maxci)); return; }
    uint64_t dg = (uint64_t)end;
    std::set<int> used;
    for (auto &kv : w.table) {
	const CalSlot &s = kv.second;
	if (!used.insert(s.ci).second) { c.violate("model", op.k + ":index", strf("two live calibrations share index %d", s.ci)); return; }
	const char *nm; int fnd, ty, r, cc, F; double lo, hi; cplx z0; const double *fvp;
	{
	    LibCall lc(c);
	    nm = vnacal_get_name(w.vcp, s.ci); fnd = vnacal_find_calibration(w.vcp, s.name.c_str());
	    ty = vnacal_get_type(w.vcp, s.ci); r = vnacal_get_rows(w.vcp, s.ci); cc = vnacal_get_columns(w.vcp, s.ci);
	    F = vnacal_get_frequencies(w.vcp, s.ci); lo = vnacal_get_fmin(w.vcp, s.ci); hi = vnacal_get_fmax(w.vcp, s.ci);
	    z0 = vnacal_get_z0(w.vcp, s.ci); fvp = vnacal_get_frequency_vector(w.vcp, s.ci);
	    size_t ncb = g_sim.callbacks.size();
	    lc.done();
	    if (ncb) { c.violate("model", op.k + ":callback", "a silent query function invoked the error callback: " + g_sim.callbacks[0].msg); return; }
	}
	if (!nm || s.name != nm) { c.violate("model", op.k + ":name", strf("index %d should hold \"%s\" but get_name returns %s", s.ci, s.name.c_str(), nm ? nm : "NULL")); return; }
	if (fnd != s.ci) { c.violate("model", op.k + ":find", strf("find_calibration(\"%s\") = %d, calibration lives at index %d", s.name.c_str(), fnd, s.ci)); return; }
	if (ty != s.spec.type || r != ss_rows(s.spec) || cc != ss_cols(s.spec) || F != s.spec.F) { c.violate("model", op.k + ":info", strf("calibration \"%s\" reports type/rows/columns/frequencies %d/%d/%d/%d, added as %d/%d/%d/%d", s.name.c_str(), ty, r, cc, F, s.spec.type, s.spec.P, s.spec.P, s.spec.F)); return; }
	if (lo != s.spec.fv.front() || hi != s.spec.fv.back()) { c.violate("model", op.k + ":info", "fmin/fmax differ from the calibration's frequency vector"); return; }
	for (int f = 0; f < F; ++f) if (!fvp || fvp[f] != s.spec.fv[f]) { c.violate("model", op.k + ":info", strf("frequency %d of calibration \"%s\" differs", f, s.name.c_str())); return; }
	zc wz = s.spec.set_z0 ? s.spec.z0 : zc(50, 0);
	if (toz(z0) != wz) { c.violate("model", op.k + ":info", strf("z0 of calibration \"%s\" is %s, expected %s", s.name.c_str(), hexz(toz(z0)).c_str(), hexz(wz).c_str())); return; }
	dg = hash_mix(dg, fnv1a(s.name) ^ (uint64_t)s.ci * 7919);
    }
    // dead indices answer with failure
    for (int ci = -1; ci <= end + 1; ++ci) {
	if (used.count(ci)) continue;
	const char *nm; int ty, e1;
	{ LibCall lc(c); nm = vnacal_get_name(w.vcp, ci); lc.done(); }
	{ LibCall lc(c); ty = vnacal_get_type(w.vcp, ci); lc.done(); e1 = lc.saved_errno; }
	if (nm) { c.violate("model", op.k + ":dead", strf("get_name(%d) returns \"%s\" for an index that holds no calibration", ci, nm)); return; }
	if (ty != -1) { c.violate("model", op.k + ":dead", strf("get_type(%d) = %d for an index that holds no calibration", ci, ty)); return; }
	(void)e1;
    }
    c.state(dg);
}

// ---- solo twin: the same session alone on a fresh vnacal_t ---------------------------
struct SoloOpts { bool permute = false; long pseed = 0; bool flip_variants = false; bool flip_shape = false; double ab_scale = 1.0; bool per_frequency = false; int alt_type = -1; };

static bool solo_apply(Ctx &c, const SessionSpec &ss_in, const std::vector<ParamSpec> &params, const std::vector<double> &fq, long dut_seed,
	const SoloOpts &o, ApplyResult &out, std::string &why)
{
    SessionSpec ss = ss_in;
    if (o.alt_type >= 0) ss.type = o.alt_type;
    if (o.permute) {
	Rng r((uint64_t)o.pseed);
	for (size_t k = ss.stds.size(); k > 1; --k) std::swap(ss.stds[k - 1], ss.stds[(size_t)r.below((long)k)]);
    }
    for (StdSpec &st : ss.stds) {
	if (o.flip_variants) { if (st.kind == 2) st.variant = (st.variant + 1) % 3; else if (st.kind != 4) st.variant = 1 - (st.variant ? 1 : 0); }
	if (o.flip_shape && world_class_of(ss.type) == W8 && !ss_rect(ss)) st.full = !st.full;
	st.ab_scale *= o.ab_scale;
    }
    std::vector<std::vector<double>> groups;
    if (o.per_frequency) for (double f : ss.fv) groups.push_back({f}); else groups.push_back(ss.fv);
    out = ApplyResult();
    out.s.assign(fq.size(), Mat(ss.P, ss.P));
    for (auto &grp : groups) {
	SessionSpec s1 = ss;
	s1.fv = grp; s1.F = (int)grp.size();
	vnacal_t *vcp;
	{ LibCall lc(c); vcp = vnacal_create(sim_error_fn, nullptr); lc.done(); }
	if (!vcp) { why = "vnacal_create failed"; return false; }
	std::vector<int> h(params.size(), -1);
	bool ok = true;
	std::vector<bool> needed(params.size(), false);
	for (auto &st : s1.stds) for (int pi : st.params) for (int q = pi, guard = 0; q >= 0 && guard < 64; ++guard) { needed[(size_t)q] = true; q = params[(size_t)q].corr ? params[(size_t)q].corr_other : -1; }
	for (size_t k = 0; k < params.size() && ok; ++k) {
	    const ParamSpec &p = params[k];
	    if (!needed[k]) continue;
	    LibCall lc(c);
	    if (p.kind == 3 && p.corr) {
		// a correlated parameter: in the twin that solves one frequency at a time its sigma vector is replaced by the one value supplied for that frequency
		int oh = p.corr_other < 0 ? p.predefined : h[(size_t)p.corr_other];
		if (o.per_frequency && p.sf.size() > 1) { double s1v = sigma_at_knot(p, grp[0]); h[k] = s1v == s1v ? vnacal_make_correlated_parameter(vcp, oh, nullptr, 1, &s1v) : -1; }
		else h[k] = vnacal_make_correlated_parameter(vcp, oh, p.sf.size() > 1 ? p.sf.data() : nullptr, (int)p.sv.size(), p.sv.data());
	    }
	    else if (p.kind == 0) h[k] = p.predefined;
	    else if (p.kind == 1) h[k] = vnacal_make_scalar_parameter(vcp, toc(p.value));
	    else if (p.kind == 2) { std::vector<cplx> gv; for (zc z : p.kv) gv.push_back(toc(z)); h[k] = vnacal_make_vector_parameter(vcp, p.kf.data(), (int)p.kf.size(), gv.data()); }
	    else { int g = vnacal_make_scalar_parameter(vcp, toc(p.guess)); h[k] = vnacal_make_unknown_parameter(vcp, g); }
	    lc.done();
	    if (h[k] < 0) { ok = false; why = "parameter creation failed in the solo twin"; }
	}
	vnacal_new_t *vnp = nullptr;
	if (ok) {
	    LibCall lc(c);
	    vnp = vnacal_new_alloc(vcp, (vnacal_type_t)s1.type, ss_rows(s1), ss_cols(s1), s1.F);
	    if (vnp) { if (vnacal_new_set_frequency_vector(vnp, s1.fv.data()) != 0) ok = false; if (s1.set_z0 && vnacal_new_set_z0(vnp, toc(s1.z0)) != 0) ok = false; }
	    else ok = false;
	    lc.done();
	    if (!ok) why = "vnacal_new_alloc / set_frequency_vector failed in the solo twin";
	}
	for (size_t k = 0; k < s1.stds.size() && ok; ++k) {
	    std::vector<int> hs;
	    for (int pi : s1.stds[k].params) hs.push_back(h[(size_t)pi]);
	    StdCall sc = feed_standard(c, vnp, s1, s1.stds[k], params, hs, nullptr);
	    if (sc.rc != 0) { ok = false; why = "solo twin: standard rejected: " + sc.msg; }
	}
	int ci = -1;
	if (ok) {
	    LibCall lc(c);
	    int rc = vnacal_new_solve(vnp);
	    if (rc == 0) ci = vnacal_add_calibration(vcp, "solo", vnp);
	    if (rc != 0 || ci < 0) { ok = false; why = "solo twin: solve/add_calibration failed: " + (g_sim.callbacks.empty() ? std::string("?") : g_sim.callbacks.back().msg); }
	    lc.done();
	}
	if (ok) {
	    std::vector<double> sub;
	    std::vector<size_t> where;
	    for (size_t k = 0; k < fq.size(); ++k) if (!o.per_frequency || fq[k] == grp[0]) { sub.push_back(fq[k]); where.push_back(k); }
	    if (!sub.empty()) {
		ApplyResult r = apply_device(c, vcp, ci, s1, sub, dut_seed, 0, nullptr);
		if (r.rc != 0) { ok = false; why = "solo twin: apply failed: " + r.msg; }
		else for (size_t k = 0; k < where.size(); ++k) out.s[where[k]] = r.s[k];
	    }
	}
	{ LibCall lc(c); vnacal_free(vcp); lc.done(); }
	if (!ok) return false;
    }
    return true;
}

static double max_diff(const ApplyResult &a, const ApplyResult &b)
{
    double worst = 0;
    for (size_t k = 0; k < a.s.size() && k < b.s.size(); ++k) for (size_t q = 0; q < a.s[k].v.size(); ++q) {
	double d = std::abs(a.s[k].v[q] - b.s[k].v[q]);
	if (!(d <= worst)) worst = d;
    }
    return worst;
}

// ---- operations ----------------------------------------------------------------------
static void run_op(CalWorld &w, const Op &op, const Plan &plan)
{
    Ctx &c = w.c;
    const std::string &k = op.k;
    c.log("op %s i=[%ld,%ld,%ld,%ld,%ld]", k.c_str(), op.I(0), op.I(1), op.I(2), op.I(3), op.I(4));
    size_t u_ncb = 0; int u_cat = -1, u_err = 0;
#define CAPTURE_CB u_ncb = g_sim.callbacks.size(); u_cat = u_ncb ? g_sim.callbacks.back().category : -1
    auto usage_failure = [&](bool failed, const char *fn, bool must_report) -> bool {
	// a refused call: failure value, EINVAL, (C11) one USAGE callback when installed
	size_t ncb = u_ncb;
	int cat = u_cat;
	if (!failed) return false;
	if (u_err != EINVAL) { c.violate("model", k + ":errno", strf("%s refused with errno %s, expected EINVAL", fn, errno_name(u_err))); return true; }
	if (must_report && w.cb && (ncb == 0 || cat != VNAERR_USAGE)) { c.violate("model", k + ":callback", strf("%s refused without a USAGE report through the error callback", fn)); return true; }
	c.count("probe.refused");
	return true;
    };

    if (k == "mkscalar") {
	LiveParam lp;
	lp.spec.kind = 1; lp.spec.value = zc(op.D(0), op.D(1));
	LIB_RETRY(c, &op, "vnacal_make_scalar_parameter", u_err, lp.handle < 0, lp.handle = vnacal_make_scalar_parameter(w.vcp, toc(lp.spec.value)));
	if (lp.handle < 0) { c.violate("model", "mkscalar:rc", "vnacal_make_scalar_parameter failed"); return; }
	lp.live = true;
	note_new_handle(w, lp.handle);
	if (lp.handle <= 2) { lp.spec.kind = 0; lp.spec.predefined = lp.handle; }	// the library answered with a predefined handle
	for (auto &o : w.params) if (o.live && o.handle == lp.handle && o.handle > 2) { c.violate("model", "mkscalar:unique", strf("new handle %d equals a live handle", lp.handle)); return; }
	w.params.push_back(lp);
	return;
    }
    if (k == "mkvector") {
	int n = (int)std::max<long>(1, std::min<long>(op.I(0), 32));
	LiveParam lp;
	lp.spec.kind = 2; lp.spec.gseed = op.I(1); lp.spec.gclass = (int)(op.I(2) & 3);
	double lo = op.D(0), hi = op.D(1);
	for (int q = 0; q < n; ++q) {
	    double f = n == 1 ? lo : lo + (hi - lo) * q / (n - 1);
	    lp.spec.kf.push_back(f);
	    lp.spec.kv.push_back(gen_gamma(lp.spec.gseed, lp.spec.gclass, f));
	}
	std::vector<cplx> gv;
	for (zc z : lp.spec.kv) gv.push_back(toc(z));
	LIB_RETRY(c, &op, "vnacal_make_vector_parameter", u_err, lp.handle < 0, lp.handle = vnacal_make_vector_parameter(w.vcp, lp.spec.kf.data(), n, gv.data()));
	if (lp.handle < 0) { c.violate("model", "mkvector:rc", "vnacal_make_vector_parameter failed for ascending positive frequencies"); return; }
	lp.live = true;
	note_new_handle(w, lp.handle);
	for (auto &o : w.params) if (o.live && o.handle == lp.handle) { c.violate("model", "mkvector:unique", strf("new handle %d equals a live handle", lp.handle)); return; }
	w.params.push_back(lp);
	return;
    }
    if (k == "mkunknown") {
	ParamSpec g;
	int gh = handle_of(w, op.I(0), &g);
	int gi = resolve_param(w, op.I(0));
	bool guess_live = gi < 0 || w.params[(size_t)gi].live;
	LiveParam lp;
	lp.spec.kind = 3; lp.spec.value = zc(op.D(0), op.D(1)); lp.spec.guess = g.kind == 3 ? g.guess : param_truth(g, 1e9);	// (an unknown given as initial guess passes on its own initial guess)
	int h;
	{
	    LIB_RETRY(c, &op, "vnacal_make_unknown_parameter", u_err, h < 0, h = vnacal_make_unknown_parameter(w.vcp, gh); CAPTURE_CB);
	    if (usage_failure(h < 0, "vnacal_make_unknown_parameter", true)) {
		if (!c.violated && guess_live && g.kind != 3) c.violate("model", "mkunknown:rc", "vnacal_make_unknown_parameter refused a live scalar/vector guess");
		return;
	    }
	}
	if (!guess_live) { c.violate("model", "mkunknown:rc", "vnacal_make_unknown_parameter accepted a deleted handle as initial guess"); return; }
	lp.handle = h; lp.live = true;
	note_new_handle(w, h);
	for (auto &o : w.params) if (o.live && o.handle == h) { c.violate("model", "mkunknown:unique", strf("new handle %d equals a live handle", h)); return; }
	if (g.kind == 2) { lp.spec.guess = param_truth(g, g.kf[0]); lp.spec.kf = {g.kf.front(), g.kf.back()}; }
	if (g.kind == 3 && !g.kf.empty()) lp.spec.kf = g.kf;
	w.params.push_back(lp);
	return;
    }
    if (k == "mkcorr") {
	// an unknown parameter correlated with another one: i[0] the other parameter, i[1] number of sigma points,
	// d = {first and last sigma frequency, sigma, true deviation from the other parameter (re, im)}
	ParamSpec g;
	int gh = handle_of(w, op.I(0), &g);
	int gi = resolve_param(w, op.I(0));
	bool other_live = gi < 0 || w.params[(size_t)gi].live;
	int n = (int)std::max<long>(1, std::min<long>(op.I(1), 16));
	std::vector<double> fv((size_t)n), sv((size_t)n, op.D(2, 0.01));
	for (int q = 0; q < n; ++q) fv[(size_t)q] = n == 1 ? op.D(0, 1e9) : op.D(0, 1e9) + (op.D(1, 2e9) - op.D(0, 1e9)) * q / (n - 1);
	if (n > 1) fv[(size_t)n - 1] = op.D(1, 2e9);
	if (op.I(3) == 1) for (int q = 0; q < n; ++q) sv[(size_t)q] = op.D(2, 0.01) * (1 + 0.7 * sin(1.3 * q + 0.1 * (double)(op.I(4) % 60)));	// (far from linear in frequency)
	LiveParam lp;
	lp.spec.kind = 3; lp.spec.corr = true; lp.spec.corr_other = gi;
	if (gi < 0) lp.spec.predefined = g.predefined;
	lp.spec.guess = g.kind == 3 ? g.guess : param_truth(g, g.kind == 2 ? g.kf[0] : 1e9);
	lp.spec.value = lp.spec.guess + zc(op.D(3, 0), op.D(4, 0));
	int h;
	{
	    LIB_RETRY(c, &op, "vnacal_make_correlated_parameter", u_err, h < 0, h = vnacal_make_correlated_parameter(w.vcp, gh, n == 1 && op.I(2) ? nullptr : fv.data(), n, sv.data()); CAPTURE_CB);
	    if (usage_failure(h < 0, "vnacal_make_correlated_parameter", true)) {
		// (refused by the manual's rule: a sigma vector disjoint from the frequency range of a vector parameter at the end of the chain)
		bool disjoint = n > 1 && !g.kf.empty() && (fv.back() < g.kf.front() || fv.front() > g.kf.back());
		if (!c.violated && other_live && !disjoint) c.violate("model", "mkcorr:rc", "vnacal_make_correlated_parameter refused a live parameter and an ascending sigma vector");
		else if (disjoint) c.count("probe.correlated_disjoint_refused");
		return;
	    }
	}
	if (!other_live) { c.violate("model", "mkcorr:rc", "vnacal_make_correlated_parameter accepted a deleted handle as the other parameter"); return; }
	lp.handle = h; lp.live = true;
	note_new_handle(w, h);
	for (auto &o : w.params) if (o.live && o.handle == h) { c.violate("model", "mkcorr:unique", strf("new handle %d equals a live handle", h)); return; }
	// permitted frequency range: that of the vector parameter at the end of the chain (if there is one), cut down to that of the
	// sigma vector (if it has more than one point); the latter restricts this parameter only, not one that uses it as initial guess
	if (!g.kf.empty()) lp.spec.kf = {g.kf.front(), g.kf.back()};
	if (n > 1) lp.spec.sigma_range = {fv.front(), fv.back()};
	lp.spec.sf = n > 1 ? fv : std::vector<double>{0.0}; lp.spec.sv = sv;
	c.count("probe.correlated_parameter_created");
	w.params.push_back(lp);
	return;
    }
    if (k == "delparam") {
	int pi = resolve_param(w, op.I(0));
	int h = pi < 0 ? (int)(((-op.I(0) - 1) % 3 + 3) % 3) : w.params[(size_t)pi].handle;
	bool live = pi < 0 || w.params[(size_t)pi].live;
	int rc;
	{
	    LIB_RETRY(c, &op, "vnacal_delete_parameter", u_err, rc != 0, rc = vnacal_delete_parameter(w.vcp, h); CAPTURE_CB);
	    if (usage_failure(rc != 0, "vnacal_delete_parameter", true)) {
		if (!c.violated && live) c.violate("model", "delparam:rc", strf("vnacal_delete_parameter(%d) refused a live handle", h));
		return;
	    }
	}
	if (!live) { c.violate("model", "delparam:rc", strf("vnacal_delete_parameter(%d) succeeded on an already deleted handle", h)); return; }
	if (pi >= 0 && w.params[(size_t)pi].spec.kind != 0) {
	    // every entry that shares the handle dies with it
	    for (auto &o : w.params) if (o.handle == h) o.live = false;
	    c.count("probe.param_deleted");
	} else c.count("probe.predefined_delete_noop");
	return;
    }
    if (k == "getpv") {
	int pi = resolve_param(w, op.I(0));
	ParamSpec p;
	int h = handle_of(w, op.I(0), &p);
	bool live = pi < 0 || w.params[(size_t)pi].live;
	double f = op.D(0);
	if (p.kind == 2 && op.I(1) == 1) f = p.kf[(size_t)(op.I(2) % (long)p.kf.size())];	// exactly at a knot
	cplx v;
	int e;
	LIB_RETRY(c, &op, "vnacal_get_parameter_value", e, __real__ v == HUGE_VAL, v = vnacal_get_parameter_value(w.vcp, h, f));
	bool failed = __real__ v == HUGE_VAL;
	if (!live) { if (!failed) c.violate("model", "getpv:rc", "get_parameter_value returned a value for a deleted handle"); return; }
	if (p.kind == 0 || p.kind == 1) {
	    zc want = param_truth(p, f);
	    if (failed || toz(v) != want) c.violate("model", "getpv:value", strf("scalar parameter value %s, supplied %s", hexz(toz(v)).c_str(), hexz(want).c_str()));
	    return;
	}
	if (p.kind == 2) {
	    double lo = p.kf.front(), hi = p.kf.back();
	    bool at_knot = false; zc kv;
	    for (size_t q = 0; q < p.kf.size(); ++q) if (p.kf[q] == f) { at_knot = true; kv = p.kv[q]; }
	    if (at_knot) { if (failed || toz(v) != kv) c.violate("model", "getpv:knot", strf("vector parameter at its knot f=%s returns %s, supplied %s", hexd(f).c_str(), hexz(toz(v)).c_str(), hexz(kv).c_str())); else c.count("probe.knot_exact"); return; }
	    if (f < lo * 0.95 || f > hi * 1.05) {
		if (!failed) c.violate("model", "getpv:range", strf("vector parameter queried at %g outside its range %g..%g by more than 5%% returned a value", f, lo, hi));
		else if (e != EINVAL) c.violate("model", "getpv:errno", strf("out-of-range query: errno %s", errno_name(e)));
		else c.count("probe.range_refused");
		return;
	    }
	    if (f >= lo && f <= hi) {
		if (failed) { c.violate("model", "getpv:rc", "vector parameter queried inside its range failed"); return; }
		if (p.kf.size() >= 5 && p.gclass <= 2) {
		    zc want = gen_gamma(p.gseed, p.gclass, f);
		    if (std::abs(toz(v) - want) > 1e-6) c.violate("model", "getpv:interp", strf("interpolated value %s at f=%g, generating rational function gives %s", hexz(toz(v)).c_str(), f, hexz(want).c_str()));
		    else c.count("probe.interp_ok");
		}
		// history independence: a fresh twin with the same knots gives the same bits
		std::vector<cplx> gv; for (zc z : p.kv) gv.push_back(toc(z));
		int th; cplx tv;
		{ LibCall lc(c); th = vnacal_make_vector_parameter(w.vcp, p.kf.data(), (int)p.kf.size(), gv.data()); tv = vnacal_get_parameter_value(w.vcp, th, f); vnacal_delete_parameter(w.vcp, th); lc.done(); }
		if (toz(tv) != toz(v) && !(toz(tv) != toz(tv))) c.violate("model", "getpv:history", strf("value at f=%g depends on earlier queries: %s, fresh twin %s", f, hexz(toz(v)).c_str(), hexz(toz(tv)).c_str()));
		else c.count("probe.history_independent");
	    }
	    return;
	}
	// unknown: the most recently solved value, failure before any solve
	{
	    const LiveParam &lp = w.params[(size_t)pi];
	    if (!lp.solved && lp.solved_points < 0) return;
	    if (!lp.solved) { if (!failed) c.violate("model", "getpv:unsolved", "get_parameter_value returned a value for an unknown parameter that has not been solved"); else c.count("probe.unsolved_refused"); return; }
	    if (f >= lp.solved_lo && f <= lp.solved_hi) {
		if (failed) { c.violate("model", "getpv:solved", strf("solved unknown parameter queried inside its band (%g in %g..%g) failed", f, lp.solved_lo, lp.solved_hi)); return; }
		if (std::abs(toz(v) - lp.spec.value) > 1e-4) { c.violate("model", "getpv:solved", strf("solved unknown parameter reads %s at %g, true value %s", hexz(toz(v)).c_str(), f, hexz(lp.spec.value).c_str())); return; }
		c.count("probe.solved_value_ok");
	    } else if (lp.solved_points > 1 && (f < 0.95 * lp.solved_lo || f > 1.05 * lp.solved_hi)) {
		if (!failed) { c.violate("model", "getpv:range", strf("solved unknown parameter queried at %g outside the band %g..%g of its last solve returned a value", f, lp.solved_lo, lp.solved_hi)); return; }
		c.count("probe.range_refused");
	    }
	}
	return;
    }
    if (k == "new") {
	int sid = (int)(op.I(0) % NSESS);
	Session &s = w.sess[sid];
	if (s.active) return;
	int type = (int)op.I(1), P = (int)op.I(2), F = (int)op.I(3);
	bool valid = type >= VNACAL_T8 && type <= VNACAL_E12 && type != _VNACAL_E12_UE14 && P >= 1 && F >= 0;
	// rectangular: a two-port VNA that drives (T types: detects) on one port only, 1x2 for T, 2x1 for U / E
	bool rect = op.I(8) != 0 && valid && P == 2 && (world_class_of(type) != W16 || op.I(8) == 2);	// (2: also the 16-term types, T16 as 1x2, U16 as 2x1)
	bool ttype = type == VNACAL_T8 || type == VNACAL_TE10 || type == VNACAL_T16;
	int R = rect && ttype ? 1 : P, C = rect && !ttype ? 1 : P;
	vnacal_new_t *vnp;
	{
	    LIB_RETRY(c, &op, "vnacal_new_alloc", u_err, vnp == nullptr, vnp = vnacal_new_alloc(w.vcp, (vnacal_type_t)type, R, C, F); CAPTURE_CB);
	    if (usage_failure(vnp == nullptr, "vnacal_new_alloc", true)) { if (!c.violated && valid && F >= 1) c.violate("model", "new:rc", "vnacal_new_alloc refused valid arguments"); return; }
	}
	if (!valid) { c.violate("model", "new:rc", strf("vnacal_new_alloc accepted type %d, %dx%d, %d frequencies", type, P, P, F)); { LibCall lc(c); vnacal_new_free(vnp); lc.done(); } return; }
	s = Session();
	s.active = true; s.vnp = vnp;
	s.spec.type = type; s.spec.P = P; s.spec.F = F; s.spec.ab = op.I(4) != 0;
	if (rect) { s.spec.R = R; s.spec.C = C; c.count(strf("probe.rectangular_session_%dx%d", R, C)); }
	s.spec.world.P = P; s.spec.world.cls = world_class_of(type); s.spec.world.seed = op.I(5);
	double lo = op.D(0), hi = op.D(1);
	for (int q = 0; q < F; ++q) s.spec.fv.push_back(F == 1 ? lo : lo + (hi - lo) * q / (F - 1));
	s.spec.set_z0 = op.I(6) != 0;
	if (op.I(9) == 1 && F >= 2 && !rect) { s.spec.dead_f = 1 + (int)(op.I(5) % (F - 1)); c.count("probe.session_with_a_dead_frequency"); }
	s.spec.z0 = zc(op.D(2, 50), op.D(3, 0));
	if (op.I(7) == 0) {	// frequency vector first (the usual order)
	    int rc;
	    { LibCall lc(c); rc = F > 0 ? vnacal_new_set_frequency_vector(vnp, s.spec.fv.data()) : 0; lc.done(); }
	    if (rc != 0) { c.violate("model", "new:setfv", "vnacal_new_set_frequency_vector refused an ascending vector"); return; }
	    s.fv_set = true;
	}
	if (s.spec.set_z0) { int rc; { LibCall lc(c); rc = vnacal_new_set_z0(vnp, toc(s.spec.z0)); lc.done(); } if (rc != 0) { c.violate("model", "new:setz0", "vnacal_new_set_z0 failed"); return; } }
	return;
    }
    if (k == "merror") {
	// measurement-error modelling with small sigmas: the data of the simulated instrument are exact, so the
	// weighting may not move the solution (and the consistency test has nothing to object to)
	Session &s = w.sess[op.I(0) % NSESS];
	if (!s.active || s.spec.F == 0) return;
	int mode = (int)(op.I(1) % 4);	// 0 one value for all frequencies, 1 per calibration frequency (NULL frequency vector), 2 own frequency vector, 3 switch off
	int F = s.spec.F;
	int n = mode == 0 ? 1 : mode == 1 ? F : 3;
	std::vector<double> fv, nf, tr;
	double lo = s.spec.fv.front(), hi = s.spec.fv.back();
	// the noise vectors' own frequencies cover the calibration band, or miss it at one end by well over five percent (then the call has to be refused)
	int miss = mode == 2 ? (int)(op.I(3) % 3) : 0;	// 0 covers, 1 misses the low end, 2 misses the high end
	double vlo = miss == 1 ? lo * 1.12 : lo * 0.9, vhi = miss == 2 ? hi * 0.88 : hi * 1.1;
	if (vhi <= vlo) { if (miss == 1) vhi = vlo * 1.3; else vlo = vhi * 0.7; }
	for (int q = 0; q < n; ++q) { fv.push_back(vlo + (vhi - vlo) * q / std::max(1, n - 1)); nf.push_back(1e-7 * (1 + q)); tr.push_back(1e-7); }
	bool with_tr = op.I(2) % 2 != 0;
	const double *pf = mode == 2 ? fv.data() : nullptr, *pn = mode == 3 ? nullptr : nf.data(), *pt = mode == 3 || !with_tr ? nullptr : tr.data();
	int rc, e;
	LIB_RETRY(c, &op, "vnacal_new_set_m_error", e, rc != 0, rc = vnacal_new_set_m_error(s.vnp, pf, n, pn, pt));
	c.log(" set_m_error mode %d -> %d errno=%s", mode, rc, rc ? errno_name(e) : "-");
	if (c.violated) return;
	bool sixteen = world_class_of(s.spec.type) == W16;
	if (rc != 0) {
	    if (miss && s.fv_set) { if (e != EINVAL) c.violate("model", "merror:errno", strf("set_m_error refused with errno %s", errno_name(e))); else c.count("probe.merror_range_refused"); return; }
	    if (!s.fv_set || sixteen) { if (e != EINVAL) c.violate("model", "merror:errno", strf("set_m_error refused with errno %s", errno_name(e))); else c.count("probe.merror_refused"); return; }
	    c.violate("model", "merror:rc", strf("vnacal_new_set_m_error refused valid arguments (errno %s)", errno_name(e)));
	    return;
	}
	if (!s.fv_set && mode != 3) { c.violate("model", "merror:rc", "vnacal_new_set_m_error accepted noise vectors before the frequency vector was set"); return; }
	if (miss) { c.violate("model", "merror:range", strf("vnacal_new_set_m_error accepted noise vectors given at %g..%g for a calibration band %g..%g", vlo, vhi, lo, hi)); return; }
	s.m_error = mode != 3;
	c.count(s.m_error ? "probe.merror_on" : "probe.merror_off");
	return;
    }
    if (k == "setfv") {
	Session &s = w.sess[op.I(0) % NSESS];
	if (!s.active || s.fv_set || s.spec.F == 0) return;
	// every vector parameter already used must cover the band
	bool covered = true, clearly_missed = false;
	for (int pi : s.added_params) {
	    const ParamSpec &p = w.params[(size_t)pi].spec;
	    double plo, phi;
	    if (!registered_frange(w, pi, plo, phi)) continue;	// (an unknown inherits the range of a vector parameter given as its initial guess)
	    if (plo > s.spec.fv.front() || phi < s.spec.fv.back()) covered = false;
	    if (plo > s.spec.fv.front() * 1.05 || phi < s.spec.fv.back() * 0.95) clearly_missed = true;
	}
	int rc, e;
	LIB_RETRY(c, &op, "vnacal_new_set_frequency_vector", e, rc != 0, rc = vnacal_new_set_frequency_vector(s.vnp, s.spec.fv.data()));
	if (rc == 0) { if (clearly_missed) { c.violate("model", "setfv:range", "frequency vector accepted although a vector standard already added misses the band by more than 5%"); return; } s.fv_set = true; }
	else {
	    if (covered && !s.tainted) { c.violate("model", "setfv:rc", strf("vnacal_new_set_frequency_vector refused a valid vector (errno %s)", errno_name(e))); return; }
	    if (e != EINVAL) { c.violate("model", "setfv:errno", strf("range refusal with errno %s", errno_name(e))); return; }
	    c.count("probe.range_refused");
	    // unusable session: retire it
	    { LibCall lc(c); vnacal_new_free(s.vnp); lc.done(); }
	    s = Session();
	}
	return;
    }
    if (k == "add") {
	Session &s = w.sess[op.I(0) % NSESS];
	if (!s.active) return;
	int P = s.spec.P;
	StdSpec st;
	st.kind = (int)(op.I(1) % 5);
	st.full = op.I(2) != 0;
	st.variant = (int)op.I(3);
	int p1 = (int)op.I(4), p2 = (int)op.I(5);
	st.ab_scale = op.D(0, 1.0) == 0 ? 1.0 : op.D(0, 1.0);
	st.rot = op.D(1, 0.0);
	if (st.kind == 0) st.ports = {p1};
	else if (st.kind == 4) { if (p1 < 1 || p1 > P || ss_rect(s.spec)) return; st.ports.clear(); for (int q = 0; q < P; ++q) st.ports.push_back((p1 - 1 + q) % P + 1); st.variant = 0; }	// all ports, rotated
	else st.ports = {p1, p2};
	int np = st.kind == 0 ? 1 : st.kind == 1 ? 2 : st.kind == 2 ? 0 : st.kind == 3 ? 4 : P * P;
	std::vector<int> handles;
	std::vector<int> pidx;
	bool all_live = true, any_unknown = false;
	// the specification refers to a private parameter list: predefined ones are appended on demand
	for (int q = 0; q < np; ++q) {
	    long pref = op.I(6 + (size_t)q, -1);
	    ParamSpec ps;
	    int h = handle_of(w, pref, &ps);
	    int pi = resolve_param(w, pref);
	    if (pi < 0) {	// predefined: materialise as a table entry so that specs can refer to it
		LiveParam lp; lp.spec = ps; lp.handle = h; lp.live = true;
		w.params.push_back(lp);
		pi = (int)w.params.size() - 1;
		// keep it out of reach of modulo-references by marking it predefined (kind 0)
	    } else {
		auto hm = s.handle_map.find(h);
		if (hm != s.handle_map.end()) { pi = hm->second; ps = w.params[(size_t)pi].spec; if (!w.params[(size_t)pi].live) c.count("probe.deleted_handle_still_used"); }
		else if (!w.params[(size_t)pi].live) all_live = false;
	    }
	    if (ps.kind == 3) any_unknown = true;
	    handles.push_back(h);
	    pidx.push_back(pi);
	}
	st.params = pidx;
	bool ports_ok = p1 >= 1 && p1 <= P && (st.kind == 0 || st.kind == 4 || (p2 >= 1 && p2 <= P && p2 != p1));
	// frequency coverage of vector parameters (when the calibration frequencies are known)
	bool covered = true, clearly_missed = false;
	if (s.fv_set) for (int pi : pidx) {
	    const ParamSpec &p = w.params[(size_t)pi].spec;
	    double plo, phi;
	    if (!registered_frange(w, pi, plo, phi)) continue;	// (an unknown inherits the range of a vector parameter given as its initial guess)
	    if (plo > s.spec.fv.front() || phi < s.spec.fv.back()) covered = false;
	    if (plo > s.spec.fv.front() * 1.05 || phi < s.spec.fv.back() * 0.95) clearly_missed = true;
	}
	if (!ports_ok) {
	    // harness must not index outside its own matrices: clamp the measurement to valid ports
	    StdSpec tmp = st;
	    for (int &p : tmp.ports) p = std::min(std::max(p, 1), P);
	    if (tmp.kind != 0 && tmp.ports[0] == tmp.ports[1]) { if (P < 2) return; tmp.ports[1] = tmp.ports[0] % P + 1; }
	    StdSpec call = tmp;
	    // measurement of the clamped standard, but the call carries the invalid port numbers
	    SessionSpec ss = s.spec;
	    (void)ss;
	    call.ports = tmp.ports;
	    // issue the call with the bad ports by patching after the buffers are built: simplest is to
	    // use full matrices so that shapes do not depend on the ports
	    call.full = true;
	    std::vector<ParamSpec> pl; for (auto &lp : w.params) pl.push_back(lp.spec);
	    StdSpec bad = call; bad.ports = st.ports;
	    // build with valid ports, then call with the invalid ones
	    StdSpec build = call;
	    (void)build;
	    // (feed_standard derives everything from the spec; invalid ports only reach libvna)
	    if (st.kind == 0 ? (p1 < 1 || p1 > P) : true) {
		// compute buffers for the clamped standard
		SessionSpec s2 = s.spec;
		StdSpec s3 = call;
		// call libvna directly with the invalid port arguments
		MeasBuf m; m.shape(P, P, s2.F);
		for (int f = 0; f < s2.F; ++f) { Mat M = s2.world.measure(std_truth(s2, s3, pl, s2.fv[f]), s2.fv[f]); for (int i = 0; i < P; ++i) for (int j = 0; j < P; ++j) m.at(i, j, f) = toc(M(i, j)); }
		int rc;
		{
		    LIB_RETRY(c, &op, "vnacal_new_add_*", u_err, rc != 0,
			if (st.kind == 0) rc = vnacal_new_add_single_reflect_m(s.vnp, m.ptrs.data(), P, P, handles[0], p1);
			else if (st.kind == 1) rc = vnacal_new_add_double_reflect_m(s.vnp, m.ptrs.data(), P, P, handles[0], handles[1], p1, p2);
			else if (st.kind == 2) rc = vnacal_new_add_through_m(s.vnp, m.ptrs.data(), P, P, p1, p2);
			else rc = vnacal_new_add_line_m(s.vnp, m.ptrs.data(), P, P, handles.data(), p1, p2);
			CAPTURE_CB);
		    if (usage_failure(rc != 0, "vnacal_new_add_*", true)) return;
		}
		c.violate("model", "add:ports", strf("standard accepted with invalid port numbers %d,%d on a %d-port calibration", p1, p2, P));
	    }
	    return;
	}
	std::vector<ParamSpec> pl; for (auto &lp : w.params) pl.push_back(lp.spec);
	if (s.spec.F == 0) return;
	SessionSpec tmp = s.spec;
	StdCall sc = feed_standard(c, s.vnp, tmp, st, pl, handles, &op);
	{ std::string pd; for (int pi : pidx) { const ParamSpec &q = w.params[(size_t)pi].spec; pd += strf(" p%d:k%d(%.3g%+.3gj)", pi, q.kind, q.value.real(), q.value.imag()); if (q.kind == 3) pd += strf("~(%.3g%+.3gj)", q.guess.real(), q.guess.imag()); }
	  c.log(" add kind=%d ports=%d,%d full=%d variant=%d%s -> %d errno=%s %s", st.kind, p1, p2, (int)st.full, st.variant, pd.c_str(), sc.rc, sc.rc ? errno_name(sc.err) : "-", sc.msg.c_str()); }
	if (c.violated) return;
	if (sc.rc == 0) {
	    if (!all_live && !s.tainted) { c.violate("model", "add:deleted", "a standard naming a deleted parameter handle was accepted"); return; }
	    if (!all_live) { c.count("probe.tainted_session_accepts_deleted_handle"); { LibCall lc(c); vnacal_new_free(s.vnp); lc.done(); } s = Session(); return; }
	    if (clearly_missed) { c.violate("model", "add:range", "a vector standard missing the calibration band by more than 5% was accepted"); return; }
	    s.spec.stds.push_back(st);
	    for (size_t q = 0; q < pidx.size(); ++q) {
		s.added_params.push_back(pidx[q]); s.handle_map.emplace(handles[q], pidx[q]);
		// (a correlated parameter brings the parameter it is correlated with into the calibration, which then keeps meaning it as well)
		for (int pi = pidx[q], guard = 0; guard < 64 && w.params[(size_t)pi].spec.corr && w.params[(size_t)pi].spec.corr_other >= 0; ++guard) {
		    pi = w.params[(size_t)pi].spec.corr_other;
		    s.handle_map.emplace(w.params[(size_t)pi].handle, pi);
		}
	    }
	    // (the library keeps an already solved calibration until the next successful solve)
	    c.count(strf("add.kind%d.variant%d.%s", st.kind, st.variant, st.full ? "full" : "abbr"));
	    if (any_unknown) c.count("probe.unknown_standard");
	} else {
	    // (whether the call would have failed without the fault is not known here: the strict ENOMEM
	    // clause is decided by the C12 enumeration, where the fault-free outcome is known)
	    if (sc.fired) { s.tainted = true; c.count("probe.add_failed_by_fault"); if (sc.err != ENOMEM && sc.err != EINVAL && sc.err != EDOM) c.violate("model", "add:errno", strf("add failed under an allocation fault with errno %s", errno_name(sc.err))); return; }
	    if (all_live && covered && s.m_error && world_class_of(s.spec.type) == W16 && sc.err == EINVAL) { c.count("probe.partial_standard_refused_under_measurement_errors"); return; }	// (vnacal_new(3): with error modelling the 16-term types need every standard to specify the whole S matrix)
	    // a correlated parameter is registered together with the parameter it is correlated with: if that one has been deleted
	    // in the meantime (and this calibration has not seen it), the library refuses; not claimed either way
	    bool corr_orphan = false;
	    for (int pi : pidx) for (int q = pi, guard = 0; guard < 64 && w.params[(size_t)q].spec.corr && w.params[(size_t)q].spec.corr_other >= 0; ++guard) {	// (down the chain of correlates)
		q = w.params[(size_t)q].spec.corr_other;
		if (!w.params[(size_t)q].live && !s.handle_map.count(w.params[(size_t)q].handle)) corr_orphan = true;
	    }
	    if (corr_orphan && sc.err == EINVAL) { c.count("probe.correlated_with_deleted_parameter_refused"); return; }
	    if (all_live && covered) { c.violate("model", "add:rc", strf("valid standard refused: kind %d ports %d,%d full %d variant %d: %s", st.kind, p1, p2, (int)st.full, st.variant, sc.msg.c_str())); return; }
	    if (sc.err != EINVAL) { c.violate("model", "add:errno", strf("standard refused with errno %s, expected EINVAL", errno_name(sc.err))); return; }
	    c.count(all_live ? "probe.range_refused" : "probe.deleted_handle_refused");
	}
	return;
    }
    if (k == "solve") {
	Session &s = w.sess[op.I(0) % NSESS];
	if (!s.active) return;
	std::vector<ParamSpec> pl; for (auto &lp : w.params) pl.push_back(lp.spec);
	int cls = s.fv_set ? classify(s.spec, pl) : 0;
	// with measurement-error modelling switched on, whether a solve succeeds also depends on the library's
	// consistency test (C18, not claimed): the solve is exercised (sanitizers, leaks, reporting) but not judged
	if (s.m_error) { cls = 0; c.count("probe.solve_with_measurement_errors"); }
	int rc, e = 0; bool fired = false; std::string msg; int cat = -1; size_t ncb = 0;
	// (a solve that fails because of an injected allocation failure is re-issued without it)
	LIB_RETRY(c, &op, "vnacal_new_solve", e, rc != 0,
	    rc = vnacal_new_solve(s.vnp);
	    ncb = g_sim.callbacks.size();
	    msg.clear(); cat = -1;
	    if (ncb) { msg = g_sim.callbacks.back().msg; cat = g_sim.callbacks.back().category; });
	c.log(" solve class=%d -> %d errno=%s %s", cls, rc, rc ? errno_name(e) : "-", msg.c_str());
	if (c.violated) return;
	c.count(strf("solve.class%d.%s", cls, rc == 0 ? "ok" : "fail"));
	if (fired) { if (rc != 0 && e != ENOMEM && e != EDOM && e != EINVAL) c.violate("model", "solve:errno", strf("solve failed under an allocation fault with errno %s", errno_name(e))); if (rc != 0) { ++s.failed_solves; c.count("probe.solve_failed_by_fault"); } else { s.solved = true; s.solved_spec = s.spec; s.solved_m_error = s.m_error; } return; }
	if (!s.fv_set) { if (rc == 0) c.violate("model", "solve:rc", "solve succeeded before the frequency vector was set"); else if (e != EINVAL) c.violate("model", "solve:errno", strf("solve without frequency vector: errno %s", errno_name(e))); return; }
	if (rc != 0) {
	    ++s.failed_solves;
	    if (e != EDOM && e != EINVAL) { c.violate("model", "solve:errno", strf("solve failed with errno %s (%s)", errno_name(e), msg.c_str())); return; }
	    if (w.cb && ncb == 0) { c.violate("model", "solve:callback", "failed solve reported nothing through the error callback"); return; }
	    if (cls == 1) { c.violate("model", "solve:determining", strf("a determining set of %zu known standards was not solved after %d failed attempts: %s", s.spec.stds.size(), s.failed_solves - 1, msg.c_str())); return; }
	    if (cls == 2 && e != EDOM) { c.violate("model", "solve:errno", strf("too few standards reported with errno %s instead of EDOM", errno_name(e))); return; }
	    if (cls == 2) c.count("probe.insufficient_reported");
	    (void)cat;
	    return;
	}
	if (cls == 2) { c.violate("model", "solve:insufficient", strf("solve succeeded with fewer measured values than unknown error terms (%zu standards)", s.spec.stds.size())); return; }
	s.solved = true;
	s.solved_spec = s.spec; s.solved_m_error = s.m_error;
	if (s.failed_solves > 0) c.count("probe.solve_after_failures");
	if (cls == 1) { bool unk = false; for (auto &st : s.spec.stds) for (int pi : st.params) if (!pl[(size_t)pi].known()) unk = true; if (unk) c.count("probe.determining_set_with_unknown_standards_solved"); }
	// unknown parameters of this session now carry solved values over the session's band
	for (int pi : s.added_params) {
	    LiveParam &lp = w.params[(size_t)pi];
	    if (lp.spec.kind != 3) continue;
	    if (cls == 1) { lp.solved = true; lp.solved_lo = s.spec.fv.front(); lp.solved_hi = s.spec.fv.back(); lp.solved_points = s.spec.F; c.count("probe.unknown_solved"); }
	    else { lp.solved = false; lp.solved_points = -1; }	// solved by an unclassified set: nothing asserted
	}
	return;
    }
    if (k == "addcal") {
	Session &s = w.sess[op.I(0) % NSESS];
	if (!s.active) return;
	std::string name = CAL_NAMES[op.I(1) % NNAMES];
	int ci;
	{
	    LIB_RETRY(c, &op, "vnacal_add_calibration", u_err, ci < 0, ci = vnacal_add_calibration(w.vcp, name.c_str(), s.vnp); CAPTURE_CB);
	    if (usage_failure(ci < 0, "vnacal_add_calibration", true)) { if (!c.violated && s.solved) c.violate("model", "addcal:rc", "vnacal_add_calibration refused a solved calibration"); return; }
	}
	if (!s.solved) { c.violate("model", "addcal:rc", "vnacal_add_calibration accepted a vnacal_new_t without a solved calibration"); return; }
	std::vector<ParamSpec> pl; for (auto &lp : w.params) pl.push_back(lp.spec);
	CalSlot slot;
	if (s.solved_spec.stds.size() != s.spec.stds.size()) c.count("probe.addcal_after_later_standards");
	slot.ci = ci; slot.name = name; slot.spec = s.solved_spec; slot.params = pl;
	slot.determining = classify(s.solved_spec, pl) == 1 && !s.solved_m_error;	// (no accuracy claim for a calibration solved with error modelling: C18 is not claimed)
	for (auto &st : s.solved_spec.stds) for (int pi : st.params) if (!pl[(size_t)pi].known()) slot.has_unknown = true;
	for (auto &st : s.solved_spec.stds) for (int pi : st.params) if (pl[(size_t)pi].kind == 2) slot.has_vector = true;
	slot.pure_trl = is_pure_trl(s.solved_spec, pl) && !s.solved_m_error;
	slot.solved_with_m_error = s.solved_m_error;
	auto it = w.table.find(name);
	if (it != w.table.end()) { c.count("probe.replace_by_name"); if (it->second.ci != ci) c.count("probe.replace_moved_slot"); w.table.erase(it); }
	for (auto &kv : w.table) if (kv.second.ci == ci) { c.violate("model", "addcal:index", strf("add_calibration(\"%s\") returned index %d which holds live calibration \"%s\"", name.c_str(), ci, kv.second.name.c_str())); return; }
	w.table[name] = slot;
	s.solved = false;	// the solved calibration moved into the table
	check_table(w, op);
	return;
    }
    if (k == "apply") {
	std::string name = CAL_NAMES[op.I(0) % NNAMES];
	auto it = w.table.find(name);
	long dut_seed = op.I(1);
	int mode = (int)(op.I(2) % 3);
	if (it == w.table.end()) {
	    // applying a calibration that does not exist: refused
	    int ci;
	    { LibCall lc(c); ci = vnacal_find_calibration(w.vcp, name.c_str()); lc.done(); }
	    if (ci >= 0) { c.violate("model", "apply:find", strf("find_calibration(\"%s\") = %d although no such calibration is live", name.c_str(), ci)); return; }
	    return;
	}
	CalSlot &slot = it->second;
	std::vector<double> fq = slot.spec.fv;
	if (op.I(3) == 1 && fq.size() >= 2) { std::vector<double> mid; for (size_t q = 0; q + 1 < fq.size(); ++q) mid.push_back(0.5 * (fq[q] + fq[q + 1])); fq = mid; }
	ApplyResult r = apply_device(c, w.vcp, slot.ci, slot.spec, fq, dut_seed, mode, &op);
	if (c.violated) return;
	if (r.rc != 0 && !slot.determining && r.err == EDOM) { c.count("probe.apply_unclassified_set_singular"); return; }
	if (r.rc != 0) { if (g_sim.fired_vna) return; c.violate("model", "apply:rc", strf("apply of calibration \"%s\" failed (%d, errno %s): %s", name.c_str(), r.rc, errno_name(r.err), r.msg.c_str())); return; }
	if (!slot.determining && op.I(3) != 1 && slot.tol_floor == 0 && !slot.solved_with_m_error) {	// (on the calibration's own frequencies only)
	    // C10 for sigma vectors: a calibration with correlated parameters whose sigma vectors have a knot at every calibration
	    // frequency must correct like its twin that is solved one frequency at a time with the one sigma value supplied for
	    // that frequency (the spline evaluates exactly to the supplied value there, whatever was evaluated before).  Claimed
	    // only when both solves succeed; no accuracy against the truth is claimed (the sigma constraint is soft).
	    bool corr = false, comparable = true;
	    for (auto &st : slot.spec.stds) for (int pi : st.params) {
		const ParamSpec &q = slot.params[(size_t)pi];
		if (q.kind == 3 && !q.corr) comparable = false;
		if (q.corr) { corr = true; if (q.corr_other >= 0 && slot.params[(size_t)q.corr_other].kind == 3) comparable = false; for (double f : slot.spec.fv) { double sv = sigma_at_knot(q, f); if (!(sv == sv)) comparable = false; } }
	    }
	    // (only where the known standards alone determine the error terms: otherwise the two solves may legitimately settle on different solutions)
	    if (corr && comparable) {
		SessionSpec known = slot.spec;
		known.stds.clear();
		for (auto &st : slot.spec.stds) { bool hc = false; for (int pi : st.params) if (slot.params[(size_t)pi].corr) hc = true; if (!hc) known.stds.push_back(st); }
		if (classify(known, slot.params) != 1) comparable = false;
	    }
	    if (corr && comparable && slot.spec.dead_f < 0) {
		SoloOpts o; o.per_frequency = true;
		ApplyResult solo; std::string why;
		if (!solo_apply(c, slot.spec, slot.params, fq, dut_seed, o, solo, why)) { if (!c.violated) c.count("probe.sigma_twin_not_solved"); return; }
		double d = max_diff(r, solo);
		c.log(" sigma twin differs by %g", d);
		if (!(d <= 1e-7)) { c.violate("model", "apply:sigma", strf("calibration \"%s\" with sigma vectors and its twin solved one frequency at a time with the sigma value supplied for that frequency differ by %.3g", name.c_str(), d)); return; }
		c.count("probe.sigma_twin_agrees");
		c.count(d <= 1e-10 ? "probe.sigma_twin_within_1e-10" : d <= 1e-8 ? "probe.sigma_twin_within_1e-8" : d <= 1e-7 ? "probe.sigma_twin_within_1e-7" : "probe.sigma_twin_within_tolerance");
		c.nontrivial = true;
		return;
	    }
	}
	if (!slot.determining) { c.count("probe.apply_unclassified_set"); return; }
	bool on_grid = op.I(3) != 1;
	// between grid points the error terms are interpolated: asserted only with enough points to
	// represent the (low-order polynomial) frequency dependence of the instrument
	if (!on_grid && slot.spec.F < 5) { c.count("probe.apply_between_points_too_few_points"); return; }
	double tol = slot.has_unknown ? 1e-4 : !on_grid ? 1e-4 : slot.has_vector ? 1e-5 : 1e-8;
	// between the calibration points the solved terms (ratios of products of the instrument's linear-in-f terms) are
	// interpolated from five or so points: the wider the band those points have to span, the coarser
	if (!on_grid) { double r = slot.spec.fv.back() / slot.spec.fv.front(); if (r > 1) tol *= r * r; }
	if (slot.tol_floor > tol) tol = slot.tol_floor;
	if (slot.tol_floor > 1e-3) { c.count("probe.apply_after_low_precision_load"); return; }
	double err = apply_error(slot.spec, fq, dut_seed, r);
	c.log(" apply %s ci=%d err=%g", name.c_str(), slot.ci, err);
	if (!(err <= tol)) { c.violate("model", "apply:truth", strf("calibration \"%s\" (type %d, %d ports, %s form, %zu standards) corrects the device with error %.3g (tolerance %.1g)", name.c_str(), slot.spec.type, slot.spec.P, slot.spec.ab ? "a/b" : "m", slot.spec.stds.size(), err, tol)); return; }
	c.count(strf("apply.type%d.P%d.%s.ok", slot.spec.type, slot.spec.P, slot.spec.ab ? "ab" : "m"));
	if (ss_rect(slot.spec)) c.count(strf("probe.rectangular_%dx%d_type%d_%s_corrects_device", ss_rows(slot.spec), ss_cols(slot.spec), slot.spec.type, slot.spec.ab ? "ab" : "m"));
	c.nontrivial = true;
	if (w.solo_twin && on_grid && slot.tol_floor == 0) {
	    // isolation / equivalent descriptions: the same data alone on a fresh vnacal_t
	    SoloOpts o;
	    long tw = op.I(4);
	    o.permute = tw & 1; o.pseed = tw;
	    o.flip_variants = (tw & 2) != 0;
	    o.flip_shape = (tw & 4) != 0;
	    if (slot.spec.ab && (tw & 8)) o.ab_scale = 1.0 + 0.5 * (double)((tw >> 8) % 7);
	    o.per_frequency = (tw & 16) != 0;
	    if ((tw & 32) && is_ue14(slot.spec.type) && !slot.has_unknown) o.alt_type = slot.spec.type == VNACAL_E12 ? VNACAL_UE14 : VNACAL_E12;
	    ApplyResult solo; std::string why;
	    if (!solo_apply(c, slot.spec, slot.params, fq, dut_seed, o, solo, why)) { if (!c.violated) c.violate("model", "apply:twin", "equivalent description of the same calibration fails: " + why); return; }
	    double d = max_diff(r, solo);
	    double ttol = slot.pure_trl ? 2e-8 : slot.has_unknown ? 1e-4 : 1e-7;	// (closed forms and linear solves agree to rounding, iterative ones to the solver's tolerance)
	    if (slot.pure_trl) c.count(d <= 1e-12 ? "probe.twin_pure_trl_within_1e-12" : d <= 1e-10 ? "probe.twin_pure_trl_within_1e-10" : d <= 2e-8 ? "probe.twin_pure_trl_within_2e-8" : "probe.twin_pure_trl_beyond_2e-8");
	    if (!(d <= ttol)) { c.violate("model", "apply:equivalent", strf("calibration \"%s\" and its equivalent description (permuted %d, entry points flipped %d, shapes flipped %d, a/b scale %g, per-frequency %d, alt type %d) differ by %.3g", name.c_str(), (int)o.permute, (int)o.flip_variants, (int)o.flip_shape, o.ab_scale, (int)o.per_frequency, o.alt_type, d)); return; }
	    c.count("probe.twin_agrees");
	    if (o.permute) c.count("probe.twin_permuted");
	    if (o.flip_variants) c.count("probe.twin_entry_points");
	    if (o.per_frequency) c.count("probe.twin_per_frequency");
	    if (o.alt_type >= 0) c.count("probe.twin_e12_ue14");
	    if (o.ab_scale != 1.0) c.count("probe.twin_ab_scaled");
	}
	if (mode != 0) {
	    ApplyResult r0 = apply_device(c, w.vcp, slot.ci, slot.spec, fq, dut_seed, 0, nullptr);
	    if (r0.rc == 0) {
		for (size_t q = 0; q < r.s.size(); ++q) for (size_t z = 0; z < r.s[q].v.size(); ++z) if (r.s[q].v[z] != r0.s[q].v[z] && !(r.s[q].v[z] != r.s[q].v[z])) { c.violate("model", "apply:order", strf("apply result at frequency %zu depends on how the frequencies were batched / ordered", q)); return; }
		c.count("probe.apply_order_independent");
	    }
	}
	return;
    }
    if (k == "delcal") {
	std::string name = CAL_NAMES[op.I(0) % NNAMES];
	auto it = w.table.find(name);
	int ci = it == w.table.end() ? (int)op.I(1) : it->second.ci;
	if (it == w.table.end()) for (auto &kv : w.table) if (kv.second.ci == ci) return;	// would hit another live one
	int rc, e; size_t ncb;
	LIB_RETRY(c, &op, "vnacal_delete_calibration", e, rc != 0, rc = vnacal_delete_calibration(w.vcp, ci); ncb = g_sim.callbacks.size());
	if (ncb) { c.violate("model", "delcal:callback", "vnacal_delete_calibration (a silent function) invoked the error callback"); return; }
	if (it != w.table.end()) {
	    if (rc != 0) { c.violate("model", "delcal:rc", strf("delete_calibration(%d) failed for live calibration \"%s\"", ci, name.c_str())); return; }
	    w.table.erase(it);
	    c.count("probe.cal_deleted");
	} else {
	    if (rc == 0) { c.violate("model", "delcal:rc", strf("delete_calibration(%d) succeeded although the index holds no calibration", ci)); return; }
	    (void)e;
	    c.count("probe.refused");
	}
	check_table(w, op);
	return;
    }
    if (k == "query") { check_table(w, op); return; }
    if (k == "newfree") {
	Session &s = w.sess[op.I(0) % NSESS];
	if (!s.active) return;
	{ LibCall lc(c, &op); vnacal_new_free(s.vnp); lc.done(); }
	s = Session();
	check_table(w, op);
	return;
    }
    if (k == "pset" || k == "pget") {
	// global (-1) and per-calibration property roots are separate
	long t = op.I(0);
	std::string name = t < 0 ? "" : CAL_NAMES[t % NNAMES];
	auto it = w.table.find(name);
	int ci = t < 0 ? -1 : it == w.table.end() ? 40 + (int)(t % 3) : it->second.ci;
	DNode *model = t < 0 ? &w.global_props : it == w.table.end() ? nullptr : &it->second.props;
	std::string key = op.S(0).empty() ? "k" : op.S(0), val = op.S(1);
	if (k == "pset") {
	    int rc; size_t ncb;
	    LIB_RETRY(c, &op, "vnacal_property_set", u_err, rc != 0, rc = vnacal_property_set(w.vcp, ci, "%s=%s", key.c_str(), val.c_str()); ncb = g_sim.callbacks.size());
	    if (ncb) { c.violate("model", "pset:callback", "vnacal_property_set (a silent function) invoked the error callback"); return; }
	    if (model) { if (rc != 0) { c.violate("model", "pset:rc", "vnacal_property_set failed on a live root"); return; } DPath p; DElem e; e.key = key; p.el = {e}; DResult r = dmodel_descend(*model, p, true); r.node->clear(); r.node->k = 1; r.node->s = val; }
	    else if (rc == 0) { c.violate("model", "pset:rc", strf("vnacal_property_set accepted calibration index %d which holds no calibration", ci)); return; }
	}
	// read back every root: a write to one must not show up in another
	std::vector<std::pair<int, DNode *>> roots = {{-1, &w.global_props}};
	for (auto &kv : w.table) roots.push_back({kv.second.ci, &kv.second.props});
	for (auto &rt : roots) {
	    const char *got;
	    { LibCall lc(c); got = vnacal_property_get(w.vcp, rt.first, "%s", key.c_str()); lc.done(); }
	    int ix = rt.second->k == 2 ? rt.second->find(key) : -1;
	    const DNode *n = ix >= 0 ? &rt.second->vals[(size_t)ix] : nullptr;
	    if (n && n->k == 1) { if (!got || n->s != got) { c.violate("model", "pget:value", strf("property %s of root %d reads %s, expected %s", key.c_str(), rt.first, got ? got : "NULL", n->s.c_str())); return; } }
	    else if (got) { c.violate("model", "pget:separate", strf("property %s appears in root %d where it was never set", key.c_str(), rt.first)); return; }
	}
	c.count("probe.property_roots_separate");
	return;
    }
    if (k == "vprec") {
	int fp = (int)op.I(0), dp = (int)op.I(1);
	int r1, r2;
	{ LibCall lc(c, &op); r1 = vnacal_set_fprecision(w.vcp, fp); lc.done(); }
	{ LibCall lc(c); r2 = vnacal_set_dprecision(w.vcp, dp); lc.done(); }
	if ((r1 == 0) != (fp >= 1) || (r2 == 0) != (dp >= 1)) { c.violate("model", "vprec:rc", strf("set_fprecision(%d)/set_dprecision(%d) returned %d/%d", fp, dp, r1, r2)); return; }
	if (fp >= 1) w.fprec = fp;
	if (dp >= 1) w.dprec = dp;
	return;
    }
    if (k == "vp_set" || k == "vp_del") {
	// property edits with the full descriptor grammar on the global (-1) or a per-calibration root
	long t = op.I(0);
	std::string name = t < 0 ? "" : CAL_NAMES[t % NNAMES];
	auto it = w.table.find(name);
	if (t >= 0 && it == w.table.end()) return;
	int ci = t < 0 ? -1 : it->second.ci;
	DNode &m = t < 0 ? w.global_props : it->second.props;
	DescSpec ds = desc_from_op(op);
	ds.quoting = ds.quoting == 1 ? 0 : ds.quoting;
	std::string desc = render_desc(c, ds);
	if (k == "vp_set") {
	    bool valid = (ds.path.suffix == 0 || ds.path.suffix == 3) && (ds.tail == 0 || ds.tail == 1);
	    if (!valid) return;
	    std::string full = desc + (ds.tail == 0 ? "=" + ds.value : "#");
	    int rc;
	    LIB_RETRY(c, &op, "vnacal_property_set", u_err, rc != 0, rc = vnacal_property_set(w.vcp, ci, "%s", full.c_str()));
	    if (rc != 0) { c.violate("model", "vp_set:rc", strf("vnacal_property_set(%d, %s) failed", ci, Json(full).str().c_str())); return; }
	    DResult r = dmodel_descend(m, ds.path, true);
	    r.node->clear();
	    if (ds.tail == 0) { r.node->k = 1; r.node->s = ds.value; }
	} else {
	    DNode copy = m;
	    DResult r = dmodel_descend(copy, ds.path, false);
	    int rc, e;
	    LIB_RETRY(c, &op, "vnacal_property_delete", e, rc != 0, rc = vnacal_property_delete(w.vcp, ci, "%s", desc.c_str()));
	    if (r.err) {
		if (rc == 0) { c.violate("model", "vp_del:rc", strf("vnacal_property_delete(%d, %s) succeeded, model expects %s", ci, Json(desc).str().c_str(), errno_name(r.err))); return; }
		if (e != r.err && e != r.err_alt) { c.violate("model", "vp_del:errno", strf("vnacal_property_delete: errno %s, expected %s", errno_name(e), errno_name(r.err))); return; }
	    } else {
		if (rc != 0) { c.violate("model", "vp_del:rc", strf("vnacal_property_delete(%d, %s) failed", ci, Json(desc).str().c_str())); return; }
		if (ds.path.suffix == 0 && !ds.path.el.empty()) { if (ds.path.el.back().t == 0) r.coll->keys.erase(r.coll->keys.begin() + r.index); r.coll->vals.erase(r.coll->vals.begin() + r.index); }
		else r.node->clear();
		m = copy;
	    }
	}
	vnaproperty_t *root;
	{ LibCall lc(c); root = vnacal_property_get_subtree(w.vcp, ci, "."); lc.done(); }
	std::string real = real_digest(c, root), want = dnode_digest(m);
	if (!c.violated && real != want) c.violate("model", k + ":tree", strf("property root %d: real %s, model %s", ci, real.c_str(), want.c_str()));
	c.count("probe.vnacal_property_tree_compared");
	return;
    }
    if (k == "vsave") {
	std::string name = op.S(0).empty() ? "c.vnacal" : op.S(0);
	// what applying each stored calibration gives now (the reference for the loaded copy)
	CalWorld::SavedFile sf;
	sf.global_props = w.global_props; sf.fprec = w.fprec; sf.dprec = w.dprec;
	for (auto &kv : w.table) {
	    CalWorld::SavedCal sc;
	    sc.slot = kv.second;
	    ApplyResult r = apply_device(c, w.vcp, kv.second.ci, kv.second.spec, kv.second.spec.fv, 4242, 0, nullptr);
	    sc.probe_ok = r.rc == 0;
	    sc.probe = r.s;
	    sf.cals.push_back(sc);
	}
	int rc, e = 0; bool fired = false; std::string msg;
	// a save that fails because of an injected fault is repeated once the fault is gone; if it
	// reports success although a fault fired, the file must be whole all the same
	LIB_RETRY(c, &op, "vnacal_save", e, rc != 0,
	    rc = vnacal_save(w.vcp, name.c_str());
	    msg.clear();
	    if (!g_sim.callbacks.empty()) msg = g_sim.callbacks.back().msg);
	c.log(" vnacal_save(%s) -> %d errno=%s size=%zu", name.c_str(), rc, rc ? errno_name(e) : "-", simfs()[name].size());
	if (c.violated) return;
	w.files.erase(name);
	if (rc != 0) { if (!fired) c.violate("model", "vsave:rc", strf("vnacal_save failed without a fault: errno %s %s", errno_name(e), msg.c_str())); else c.count("probe.vsave_failed_by_fault"); check_table(w, op); return; }
	sf.good = true;
	// a frequency precision too coarse to keep the calibration frequencies apart cannot round-trip
	if (sf.fprec < 1000) for (auto &sc : sf.cals) for (size_t q = 1; q < sc.slot.spec.fv.size(); ++q) {
	    char b1[80], b2[80];
	    snprintf(b1, sizeof b1, "%.*e", std::min(sf.fprec, 60) - 1, sc.slot.spec.fv[q - 1]);
	    snprintf(b2, sizeof b2, "%.*e", std::min(sf.fprec, 60) - 1, sc.slot.spec.fv[q]);
	    if (strtod(b2, nullptr) <= strtod(b1, nullptr)) { sf.good = false; c.count("probe.vsave_precision_merges_frequencies"); }
	}
	w.files[name] = sf;
	c.count("probe.vsave_ok");
	if (op.I(0) == 1) {	// the old all-capitals first line with version 3.x denotes the same format
	    std::string &txt = simfs()[name];
	    if (txt.compare(0, 11, "#VNACal 1.0") == 0) { txt.replace(0, 11, "#VNACAL 3.0"); c.count("probe.vnacal3_alias"); }
	}
	check_table(w, op);
	return;
    }
    if (k == "vload") {
	std::string name = op.S(0).empty() ? "c.vnacal" : op.S(0);
	if (!simfs().count(name)) return;
	// restart: everything in memory is discarded, only the simulated disk survives
	{ LibCall lc(c); vnacal_free(w.vcp); lc.done(); }
	w.vcp = nullptr;
	check_ledger_empty(c, "restart (vnacal_free before load)");
	if (c.violated) return;
	for (auto &s : w.sess) s = Session();
	w.params.clear();
	w.table.clear();
	w.global_props.clear();
	w.fprec = 7; w.dprec = 6;
	c.count("fault.restart.fired");
	vnacal_t *vcp; int e = 0; bool fired = false; std::string msg;
	// storage faults (a stream that errors or ends early) change what the library reads: those
	// loads are not repeated; a load failing for lack of memory is
	LIB_RETRY(c, &op, "vnacal_load", e, vcp == nullptr && !(g_sim.fired_read_eio || g_sim.fired_read_eof || g_sim.fired_open),
	    vcp = vnacal_load(name.c_str(), w.cb ? sim_error_fn : nullptr, nullptr);
	    fired = g_sim.fired_read_eio || g_sim.fired_read_eof || g_sim.fired_open;
	    msg.clear();
	    if (!g_sim.callbacks.empty()) msg = g_sim.callbacks.back().msg);
	c11_discipline(c, "vnacal_load", "vnacal_load", vcp == nullptr, e, w.cb, C11_MUST);	// (callbacks of the last attempt)
	if (c.violated) return;
	c.log(" vnacal_load(%s) -> %s errno=%s", name.c_str(), vcp ? "ok" : "NULL", vcp ? "-" : errno_name(e));
	auto fit = w.files.find(name);
	bool good = fit != w.files.end() && fit->second.good && !fired;
	if (!vcp) {
	    check_ledger_empty(c, "failed vnacal_load (nothing may be left behind)");
	    if (c.violated) return;
	    if (good) { c.violate("model", "vload:rc", strf("file written by a successful vnacal_save is rejected: errno %s %s", errno_name(e), msg.c_str())); return; }
	    c.count("probe.vload_failed");
	    { LibCall lc(c); w.vcp = vnacal_create(w.cb ? sim_error_fn : nullptr, nullptr); lc.done(); }
	    return;
	}
	w.vcp = vcp;
	if (!good) {
	    // unpredicted content (fault or damaged file): resynchronise the table from the object
	    int end; { LibCall lc(c); end = vnacal_get_calibration_end(vcp); lc.done(); }
	    c.count("probe.vload_unpredicted");
	    // continue on a fresh object: the loaded one only has to be freeable
	    { LibCall lc(c); vnacal_free(vcp); lc.done(); }
	    check_ledger_empty(c, "free of an unpredicted load");
	    { LibCall lc(c); w.vcp = vnacal_create(w.cb ? sim_error_fn : nullptr, nullptr); lc.done(); }
	    (void)end;
	    return;
	}
	const CalWorld::SavedFile &sf = fit->second;
	double ftol = sf.fprec >= 1000 ? 0 : 0.6 * pow(10.0, 1 - sf.fprec), dtol = sf.dprec >= 1000 ? 0 : 0.6 * pow(10.0, 1 - sf.dprec);
	std::vector<const CalWorld::SavedCal *> order;
	for (auto &sc : sf.cals) order.push_back(&sc);
	std::sort(order.begin(), order.end(), [](const CalWorld::SavedCal *a, const CalWorld::SavedCal *b) { return a->slot.ci < b->slot.ci; });
	for (size_t rank = 0; rank < order.size(); ++rank) {
	    const CalWorld::SavedCal &sc = *order[rank];
	    CalSlot sl = sc.slot;
	    sl.ci = (int)rank;	// a file cannot hold empty slots: order is kept, indices close up
	    const char *nm; int ty, r, cc, F; cplx z0; const double *fv;
	    {
		LibCall lc(c);
		nm = vnacal_get_name(vcp, sl.ci); ty = vnacal_get_type(vcp, sl.ci); r = vnacal_get_rows(vcp, sl.ci); cc = vnacal_get_columns(vcp, sl.ci);
		F = vnacal_get_frequencies(vcp, sl.ci); z0 = vnacal_get_z0(vcp, sl.ci); fv = vnacal_get_frequency_vector(vcp, sl.ci);
		lc.done();
	    }
	    auto bad = [&](const std::string &m2) { c.violate("model", "vload:value", strf("calibration \"%s\" (index %d, fprecision %d, dprecision %d) after save and load: %s", sl.name.c_str(), sl.ci, sf.fprec, sf.dprec, m2.c_str())); };
	    if (!nm || sl.name != nm) { bad(strf("name at its index is %s", nm ? nm : "NULL")); return; }
	    if (ty != sl.spec.type || r != ss_rows(sl.spec) || cc != ss_cols(sl.spec) || F != sl.spec.F) { bad(strf("type/rows/columns/frequencies %d/%d/%d/%d, saved %d/%d/%d/%d", ty, r, cc, F, sl.spec.type, sl.spec.P, sl.spec.P, sl.spec.F)); return; }
	    CalSlot loaded = sl;
	    for (int f = 0; f < F; ++f) {
		if (!fv || fabs(fv[f] - sl.spec.fv[f]) > ftol * fabs(sl.spec.fv[f])) { bad(strf("frequency %d is %s, saved %s", f, fv ? hexd(fv[f]).c_str() : "?", hexd(sl.spec.fv[f]).c_str())); return; }
		loaded.spec.fv[f] = fv[f];
	    }
	    zc wz = sl.spec.set_z0 ? sl.spec.z0 : zc(50, 0);
	    if (std::abs(toz(z0) - wz) > dtol * std::abs(wz)) { bad(strf("z0 is %s, saved %s", hexz(toz(z0)).c_str(), hexz(wz).c_str())); return; }
	    loaded.spec.z0 = toz(z0); loaded.spec.set_z0 = true;
	    vnaproperty_t *root;
	    { LibCall lc(c); root = vnacal_property_get_subtree(vcp, sl.ci, "."); lc.done(); }
	    std::string real = real_digest(c, root), want = dnode_digest(sl.props);
	    if (c.violated) return;
	    if (real != want) { bad("property tree is " + real + ", saved " + want); return; }
	    // applying the loaded calibration gives what applying the original gave
	    if (sc.probe_ok && sl.determining && sf.dprec >= 5 && sf.fprec >= 5) {
		ApplyResult ar = apply_device(c, vcp, sl.ci, loaded.spec, loaded.spec.fv, 4242, 0, nullptr);
		if (c.violated) return;
		if (ar.rc != 0) { bad("apply of the loaded calibration fails: " + ar.msg); return; }
		double worst = 0;
		bool exact = sf.dprec >= 1000 && sf.fprec >= 1000;
		for (size_t q = 0; q < ar.s.size(); ++q) for (size_t z = 0; z < ar.s[q].v.size(); ++z) {
		    double d = std::abs(ar.s[q].v[z] - sc.probe[q].v[z]);
		    if (!(d <= worst)) worst = d;
		}
		double tol = exact ? 0 : std::max(100.0 * pow(10.0, 1 - std::min(sf.dprec, 15)) + (sf.fprec >= 1000 ? 0 : 10 * pow(10.0, 1 - sf.fprec)), 1e-9);
		if (!(worst <= tol)) { bad(strf("applying it differs from applying the original by %.3g (tolerance %.3g%s)", worst, tol, exact ? ", must be bit-exact at maximum precision" : "")); return; }
		c.count(exact ? "probe.vload_apply_exact" : "probe.vload_apply_close");
	    }
	    loaded.tol_floor = std::max(sl.tol_floor, sf.dprec >= 1000 && sf.fprec >= 1000 ? 0.0 : 1000.0 * pow(10.0, 1 - std::min(sf.dprec, 16)) + 100.0 * pow(10.0, 1 - std::min(sf.fprec, 16)));
	    w.table[sl.name] = loaded;
	}
	{
	    vnaproperty_t *root;
	    { LibCall lc(c); root = vnacal_property_get_subtree(vcp, -1, "."); lc.done(); }
	    std::string real = real_digest(c, root), want = dnode_digest(sf.global_props);
	    if (!c.violated && real != want) { c.violate("model", "vload:value", "global property tree is " + real + ", saved " + want); return; }
	    w.global_props = sf.global_props;
	}
	c.count("probe.vload_ok");
	c.nontrivial = c.nontrivial || !sf.cals.empty();
	check_table(w, op);
	return;
    }
    c.log("unknown op %s ignored", k.c_str());
    (void)plan;
}

static void cal_run(Ctx &c, const Plan &plan)
{
    CalWorld w(c);
    w.cb = plan.cfg.geti("callback", 1) != 0;
    c.cb_installed = w.cb;
    w.solo_twin = plan.cfg.geti("solo_twin", 1) != 0;
    { LibCall lc(c); w.vcp = vnacal_create(w.cb ? sim_error_fn : nullptr, nullptr); lc.done(); }
    if (!w.vcp) { c.violate("model", "create:rc", "vnacal_create failed"); return; }
    for (size_t k = 0; k < plan.ops.size() && !c.violated; ++k) {
	c.cur_op = (long)k;
	const Op &op = plan.ops[k];
	c.interleave = hash_mix(c.interleave, (uint64_t)op.I(15) + 1);
	run_op(w, op, plan);
    }
    c.cur_op = (long)plan.ops.size();
    if (!c.violated) {
	// sessions still open are freed by vnacal_free (documented)
	{ LibCall lc(c); vnacal_free(w.vcp); lc.done(); }
	check_ledger_empty(c, "end of run (vnacal_free)");
    }
}

} // namespace

Plan cal_gen(const std::string &check, const std::string &tier, uint64_t seed, long run);
static EngineReg reg_cal(Engine{"cal", cal_gen, cal_run});
