// DocModel: abstract document of nested maps (insertion ordered), lists, scalars and
// nulls with the update rules of vnaproperty(3).  Written from the manual page; shares
// no code with libvna.
#pragma once
#include <string>
#include <vector>
#include <cerrno>

struct DNode {
    int k = 0;	// 0 null, 1 scalar, 2 map, 3 list
    std::string s;
    std::vector<std::string> keys;
    std::vector<DNode> vals;	// map values (parallel to keys) or list items
    void clear() { k = 0; s.clear(); keys.clear(); vals.clear(); }
    int find(const std::string &key) const {
	for (size_t i = 0; i < keys.size(); ++i) if (keys[i] == key) return (int)i;
	return -1;
    }
    size_t nodes() const { size_t n = 1; for (auto &v : vals) n += v.nodes(); return n; }
    size_t depth() const { size_t d = 0; for (auto &v : vals) { size_t x = v.depth(); if (x > d) d = x; } return d + 1; }
    bool operator==(const DNode &o) const {
	if (k != o.k) return false;
	if (k == 1) return s == o.s;
	if (k == 2 && keys != o.keys) return false;
	if (vals.size() != o.vals.size()) return false;
	for (size_t i = 0; i < vals.size(); ++i) if (!(vals[i] == o.vals[i])) return false;
	return true;
    }
};

// canonical text of a tree (the same format is produced from the real object through
// its public getters)
static inline void dnode_digest(const DNode &n, std::string &out)
{
    switch (n.k) {
    case 0: out += "~"; break;
    case 1: out += "s" + std::to_string(n.s.size()) + ":" + n.s; break;
    case 2:
	out += "{";
	for (size_t i = 0; i < n.keys.size(); ++i) {
	    out += "k" + std::to_string(n.keys[i].size()) + ":" + n.keys[i] + "=";
	    dnode_digest(n.vals[i], out);
	    out += ",";
	}
	out += "}";
	break;
    case 3:
	out += "[";
	for (auto &v : n.vals) { dnode_digest(v, out); out += ","; }
	out += "]";
	break;
    }
}
static inline std::string dnode_digest(const DNode &n) { std::string s; dnode_digest(n, s); return s; }

// one path element
struct DElem {
    int t = 0;	// 0 key, 1 [n], 2 [n+], 3 [+]
    std::string key;
    long n = 0;
};
struct DPath {
    std::vector<DElem> el;
    int suffix = 0;	// 0 none, 1 {}, 2 [], 3 trailing dot
};

struct DResult {
    DNode *node = nullptr;	// addressed node (nullptr on failure)
    DNode *coll = nullptr;	// collection holding the last element (for delete)
    long index = -1;		// position of the last element within coll
    int err = 0;		// EINVAL / ENOENT on failure
    int err_alt = 0;		// second acceptable errno when two documented reasons apply
};

// Walk the path.  set=true makes the tree conform (creating / replacing nodes).
static inline DResult dmodel_descend(DNode &root, const DPath &p, bool set)
{
    DResult r;
    DNode *node = &root;
    if (!set) for (const DElem &e : p.el) if (e.t >= 2) r.err_alt = EINVAL;
    for (const DElem &e : p.el) {
	if (e.t == 0) {
	    if (node->k == 0) {
		if (!set) { r.err = ENOENT; return r; }
		node->k = 2;
	    } else if (node->k != 2) {
		if (!set) { r.err = EINVAL; return r; }
		node->clear(); node->k = 2;
	    }
	    int ix = node->find(e.key);
	    if (ix < 0) {
		if (!set) { r.err = ENOENT; return r; }
		node->keys.push_back(e.key);
		node->vals.emplace_back();
		ix = (int)node->keys.size() - 1;
	    }
	    r.coll = node; r.index = ix;
	    node = &node->vals[ix];
	} else {
	    if (node->k == 0) {
		if (!set) { r.err = ENOENT; return r; }
		node->k = 3;
	    } else if (node->k != 3) {
		if (!set) { r.err = EINVAL; return r; }
		node->clear(); node->k = 3;
	    }
	    long len = (long)node->vals.size();
	    long ix = e.n;
	    if (e.t == 1 || (e.t == 2 && set && e.n >= len)) {
		if (e.t == 2 && !set) { r.err = EINVAL; return r; }
		if (ix >= len) {
		    if (!set) { r.err = ENOENT; return r; }
		    if (ix > (1L << 20)) { r.err = EINVAL; r.err_alt = ENOMEM; return r; }	// (the model does not build lists of millions of nulls)
		    node->vals.resize((size_t)ix + 1);
		}
	    } else if (e.t == 2) {
		if (!set) { r.err = EINVAL; return r; }
		node->vals.insert(node->vals.begin() + ix, DNode());
	    } else {
		if (!set) { r.err = EINVAL; return r; }
		node->vals.emplace_back();
		ix = len;
	    }
	    r.coll = node; r.index = ix;
	    node = &node->vals[(size_t)ix];
	}
    }
    if (p.suffix == 1 || p.suffix == 2) {
	int want = p.suffix == 1 ? 2 : 3;
	if (node->k == 0) {
	    if (!set) { r.err = ENOENT; return r; }
	    node->k = want;
	} else if (node->k != want) {
	    if (!set) { r.err = EINVAL; return r; }
	    node->clear(); node->k = want;
	}
    }
    r.node = node;
    return r;
}

// inverse of dnode_digest (used to resynchronise the model where a property makes no
// claim about the state after a failed call)
static inline bool dnode_parse(const std::string &t, size_t &pos, DNode &out)
{
    out.clear();
    if (pos >= t.size()) return false;
    char ch = t[pos];
    auto lenstr = [&](std::string &dst) -> bool {
	size_t n = 0;
	bool any = false;
	while (pos < t.size() && t[pos] >= '0' && t[pos] <= '9') { n = n * 10 + (size_t)(t[pos] - '0'); ++pos; any = true; }
	if (!any || pos >= t.size() || t[pos] != ':') return false;
	++pos;
	if (pos + n > t.size()) return false;
	dst = t.substr(pos, n);
	pos += n;
	return true;
    };
    if (ch == '~') { ++pos; return true; }
    if (ch == 's') { ++pos; out.k = 1; return lenstr(out.s); }
    if (ch == '{') {
	++pos; out.k = 2;
	while (pos < t.size() && t[pos] != '}') {
	    if (t[pos] != 'k') return false;
	    ++pos;
	    std::string key;
	    if (!lenstr(key)) return false;
	    if (pos >= t.size() || t[pos] != '=') return false;
	    ++pos;
	    DNode v;
	    if (!dnode_parse(t, pos, v)) return false;
	    if (pos >= t.size() || t[pos] != ',') return false;
	    ++pos;
	    out.keys.push_back(key);
	    out.vals.push_back(v);
	}
	if (pos >= t.size()) return false;
	++pos;
	return true;
    }
    if (ch == '[') {
	++pos; out.k = 3;
	while (pos < t.size() && t[pos] != ']') {
	    DNode v;
	    if (!dnode_parse(t, pos, v)) return false;
	    if (pos >= t.size() || t[pos] != ',') return false;
	    ++pos;
	    out.vals.push_back(v);
	}
	if (pos >= t.size()) return false;
	++pos;
	return true;
    }
    return false;
}
