// Shared by the array engine and its generator: deterministic value generators (so that
// plans stay small: a vector argument is described by a seed and a class).
#pragma once
#include "core.h"
#include "arraymodel.h"
#include <functional>

static const int NOBJ = 3;

static inline double u01(long seed, long k, long salt)
{
    uint64_t x = (uint64_t)seed * 0x9e3779b97f4a7c15ULL + (uint64_t)k * 0xbf58476d1ce4e5b9ULL + (uint64_t)salt * 0x94d049bb133111ebULL;
    uint64_t z = Rng::splitmix(x);
    return (double)(z >> 11) * (1.0 / 9007199254740992.0);
}
// data values: cls 0 unit box, 1 wide magnitude range, 2 small integers, 3 special values
static inline zc gen_val(long seed, long k, int cls)
{
    double a = u01(seed, k, 1), b = u01(seed, k, 2);
    switch (cls) {
    default:
    case 0: return zc(2 * a - 1, 2 * b - 1);
    case 1: { double m = pow(10.0, 24 * u01(seed, k, 3) - 12); return zc(m * (2 * a - 1), m * (2 * b - 1)); }
    case 2: return zc(floor(7 * a) - 3, floor(7 * b) - 3);
    case 3: {
	int w = (int)(u01(seed, k, 3) * 6);
	static const double sp[] = {0.0, -0.0, INFINITY, -INFINITY, NAN, 1e308};
	return zc(sp[w], 2 * b - 1);
    }
    }
}
// reference impedances: cls 0 real positive, 1 complex with positive real part, 2 all 50, 3 all 75
static inline zc gen_z0(long seed, long p, int cls)
{
    switch (cls) {
    default:
    case 0: return zc(5 + 495 * u01(seed, p, 4), 0);
    case 1: return zc(5 + 495 * u01(seed, p, 4), 200 * u01(seed, p, 5) - 100);
    case 2: return zc(50, 0);
    case 3: return zc(75, 0);
    }
}
// frequencies: cls 0 strictly ascending and positive, 1 arbitrary
static inline double gen_freq(long seed, long f, int cls)
{
    if (cls == 1) return 1e9 * (2 * u01(seed, f, 6) - 0.5);
    return (double)(f + 1) * 1.0e6 * (1.0 + 0.5 * u01(seed, 0, 7)) + 1.0e3 * u01(seed, f, 8);
}
// a well-conditioned network of the requested parameter type (through a moderate S matrix)
static inline std::vector<zc> gen_network(int type, int R, int C, long seed, int f, int cls, const std::vector<zc> &z0)
{
    std::vector<zc> m((size_t)R * C);
    bool square = R == C && R > 0;
    if (!square || type == VPT_UNDEF || type == VPT_ZIN || cls == 9) {
	for (size_t k = 0; k < m.size(); ++k) m[k] = gen_val(seed * 31 + f, (long)k, cls == 9 ? 0 : cls);
	if (type == VPT_ZIN) for (auto &z : m) z = zc(10 + 90 * std::abs(z.real()), 50 * z.imag());
	return m;
    }
    int n = R;
    std::vector<zc> s((size_t)n * n);
    for (int r = 0; r < n; ++r) for (int c = 0; c < n; ++c) {
	double mag = r == c ? 0.3 * u01(seed + f, r * n + c, 10) : (0.3 + 0.3 * u01(seed + f, r * n + c, 10)) / (n > 2 ? n - 1 : 1);
	double ph = 2 * M_PI * u01(seed + f, r * n + c, 11);
	s[(size_t)r * n + c] = std::polar(mag, ph);
    }
    if (type == VPT_S) return s;
    bool nport = ArrayModel::is_szy(type);
    const ConvEntry *e = ArrayModel::find_conv(VPT_S, type, nport);
    if (!e) return s;
    std::vector<zc> out;
    ArrayModel::apply_conv(e, s, z0, n, out);
    return out;
}

// file operations (save/load family) live in array_files.cc
bool array_file_op(Ctx &c, const Op &op, int oi, vnadata_t **obj, ArrayModel *m,
	std::function<void(int, const char *)> compare, std::function<void(int)> resync);
