#include "core.h"

std::string strf(const char *fmt, ...)
{
    va_list ap;
    va_start(ap, fmt);
    char buf[2048];
    int n = vsnprintf(buf, sizeof buf, fmt, ap);
    va_end(ap);
    if (n < (int)sizeof buf) return std::string(buf, n < 0 ? 0 : n);
    std::string r((size_t)n + 1, '\0');
    va_start(ap, fmt);
    vsnprintf(&r[0], r.size(), fmt, ap);
    va_end(ap);
    r.resize((size_t)n);
    return r;
}
std::string hexd(double d)
{
    if (d != d) return "nan";
    char buf[64];
    snprintf(buf, sizeof buf, "%a", d);
    return buf;
}
std::string hexz(zc z) { return hexd(z.real()) + (z.imag() < 0 || (z.imag() == 0 && std::signbit(z.imag())) ? "" : "+") + hexd(z.imag()) + "j"; }

const char *errno_name(int e)
{
    switch (e) {
    case 0: return "0";
    case EINVAL: return "EINVAL";
    case ENOENT: return "ENOENT";
    case ENOMEM: return "ENOMEM";
    case EDOM: return "EDOM";
    case EBADMSG: return "EBADMSG";
    case ENOPROTOOPT: return "ENOPROTOOPT";
    case ENOSYS: return "ENOSYS";
    case EIO: return "EIO";
    case ENOSPC: return "ENOSPC";
    case EACCES: return "EACCES";
    case EMFILE: return "EMFILE";
    case ERANGE: return "ERANGE";
    default: break;
    }
    static char buf[8][16];
    static int k = 0;
    k = (k + 1) % 8;
    snprintf(buf[k], sizeof buf[k], "E%d", e);
    return buf[k];
}

// ---------------------------------------------------------------- plans
Json Plan::to_json() const
{
    Json j = Json::obj();
    j["check"] = check;
    j["engine"] = engine;
    j["seed"] = seed;
    j["run"] = run;
    j["cfg"] = cfg;
    Json jo = Json::arr();
    for (const Op &op : ops) {
	Json o = Json::obj();
	o["k"] = op.k;
	if (!op.i.empty()) { Json a = Json::arr(); for (long v : op.i) a.push(Json(v)); o["i"] = a; }
	if (!op.d.empty()) { Json a = Json::arr(); for (double v : op.d) a.push(Json(v)); o["d"] = a; }
	if (!op.s.empty()) { Json a = Json::arr(); for (auto &v : op.s) a.push(Json(v)); o["s"] = a; }
	if (!op.f.empty()) {
	    Json a = Json::arr();
	    for (auto &f : op.f) {
		Json jf = Json::obj();
		jf["t"] = f.t; jf["n"] = f.n;
		if (f.e) jf["e"] = f.e;
		a.push(jf);
	    }
	    o["f"] = a;
	}
	jo.push(o);
    }
    j["ops"] = jo;
    return j;
}
Plan Plan::from_json(const Json &j)
{
    Plan p;
    p.check = j.gets("check");
    p.engine = j.gets("engine");
    p.seed = (long)j.geti("seed");
    p.run = (long)j.geti("run");
    if (const Json *c = j.find("cfg")) p.cfg = *c;
    if (const Json *ops = j.find("ops")) {
	for (const Json &o : ops->a) {
	    Op op;
	    op.k = o.gets("k");
	    if (const Json *a = o.find("i")) for (auto &v : a->a) op.i.push_back(v.t == Json::DBL ? (long)v.d : (long)v.i);
	    if (const Json *a = o.find("d")) for (auto &v : a->a) op.d.push_back(v.t == Json::INT ? (double)v.i : v.d);
	    if (const Json *a = o.find("s")) for (auto &v : a->a) op.s.push_back(v.s);
	    if (const Json *a = o.find("f")) for (auto &v : a->a) {
		Fault f;
		f.t = v.gets("t"); f.n = (long)v.geti("n"); f.e = (long)v.geti("e");
		op.f.push_back(f);
	    }
	    p.ops.push_back(op);
	}
    }
    return p;
}
uint64_t Plan::fingerprint() const
{
    Json j = to_json();
    j["seed"] = 0; j["run"] = 0;
    return fnv1a(j.str());
}

// ---------------------------------------------------------------- context
void Ctx::logs(const std::string &s)
{
    h = fnv1a(s.data(), s.size(), h);
    h = fnv1a("\n", 1, h);
    if (verbose) { text += s; text += '\n'; }
}
void Ctx::log(const char *fmt, ...)
{
    va_list ap;
    va_start(ap, fmt);
    char buf[4096];
    int n = vsnprintf(buf, sizeof buf, fmt, ap);
    va_end(ap);
    if (n >= (int)sizeof buf) n = sizeof buf - 1;
    logs(std::string(buf, n < 0 ? 0 : n));
}
void Ctx::violate(const std::string &cls, const std::string &site, const std::string &msg)
{
    if (violated) return;
    violated = true;
    v.cls = cls; v.site = site; v.msg = msg; v.op = cur_op;
    // sanitizer reports contain process ids and addresses: they are not part of the event log
    logs("VIOLATION " + cls + " " + site + " " + ((cls == "asan" || cls == "ubsan") ? std::string("(sanitizer report)") : msg));
}

LibCall::LibCall(Ctx &ctx, const Op *op, int) : c(ctx)
{
    armed = op != nullptr;
    g_sim.n_vna = g_sim.n_yaml = 0;
    g_sim.fail_vna = g_sim.fail_yaml = 0;
    g_sim.fail_vna_sticky = false;
    g_sim.fired_vna = g_sim.fired_yaml = 0;
    g_sim.n_toobig = 0;
    g_sim.fired_read_eio = g_sim.fired_read_eof = g_sim.fired_write_err = g_sim.fired_close_err = g_sim.fired_open = 0;
    FileFaults ff;
    if (ctx.plan) {
	ff.bufsize = (long)ctx.plan->cfg.geti("bufsize", -1);
	ff.read_frag = (long)ctx.plan->cfg.geti("read_frag", 0);
	ff.write_short = (long)ctx.plan->cfg.geti("write_short", 0);
    }
    if (op) {
	for (const Fault &f : op->f) {
	    c.count("fault." + f.t + ".configured");
	    if (f.t == "alloc.vna") g_sim.fail_vna = f.n;
	    else if (f.t == "alloc.vna.sticky") { g_sim.fail_vna = f.n; g_sim.fail_vna_sticky = true; }
	    else if (f.t == "alloc.yaml") g_sim.fail_yaml = f.n;
	    else if (f.t == "write.err") { ff.write_err_at = f.n; ff.write_errno = f.e ? f.e : ENOSPC; }
	    else if (f.t == "write.short") ff.write_short = f.n;
	    else if (f.t == "read.eio") ff.read_eio_at = f.n;
	    else if (f.t == "read.eof") ff.read_eof_at = f.n;
	    else if (f.t == "read.frag") ff.read_frag = f.n;
	    else if (f.t == "close.err") ff.close_err = true;
	    else if (f.t == "open.fail") ff.open_errno = f.e ? (int)f.e : EACCES;
	    else if (f.t == "bufsize") ff.bufsize = f.n;
	}
    }
    g_sim.ff = ff;
    g_sim.callbacks.clear();
    g_sim.op_index = ctx.cur_op;
    errno = 0;
    g_sim.in_lib = 1;
}
void LibCall::done()
{
    if (finished) return;
    saved_errno = errno;
    g_sim.in_lib = 0;
    finished = true;
    if (armed && c.cur_op >= 0) {
	if ((long)c.main_allocs.size() <= c.cur_op) c.main_allocs.resize((size_t)c.cur_op + 1, 0);
	c.main_allocs[(size_t)c.cur_op] += g_sim.n_vna;
    }
    if (g_sim.n_toobig) c.count("alloc.above_simulated_ram.refused", g_sim.n_toobig);
    if (g_sim.fired_vna) c.count("fault.alloc.vna.fired", g_sim.fired_vna);
    if (g_sim.fired_yaml) { c.count("fault.alloc.yaml.fired", g_sim.fired_yaml); c.count("ledger.yaml_blocks_forgiven", (long)ledger_forgive_yaml(g_sim.op_index)); }
    if (g_sim.fired_read_eio) c.count("fault.read.eio.fired", g_sim.fired_read_eio);
    if (g_sim.fired_read_eof) c.count("fault.read.eof.fired", g_sim.fired_read_eof);
    if (g_sim.fired_write_err) c.count("fault.write.err.fired", g_sim.fired_write_err);
    if (g_sim.fired_close_err) c.count("fault.close.err.fired", g_sim.fired_close_err);
    if (g_sim.fired_open) c.count("fault.open.fail.fired", g_sim.fired_open);
    g_sim.fail_vna = g_sim.fail_yaml = 0;
    g_sim.fail_vna_sticky = false;
    g_sim.ff = FileFaults();
    if (g_sim.san_errors && !c.violated) {
	const std::string &r = g_sim.san_report;
	std::string cls = r.compare(0, 6, "UBSAN:") == 0 ? "ubsan" : "asan";
	c.violate(cls, "", r);
    }
}
LibCall::~LibCall() { done(); }

void fault_failed(Ctx &c, const std::string &, int, bool)
{
    c.count("probe.failed_by_fault");
}
void fault_recovered(Ctx &c, const std::string &what, int first_err, bool alloc_fault)
{
    c.count("probe.reissued_after_fault_ok");
    if (alloc_fault && c.strict_enomem && first_err != ENOMEM)
	c.violate("c12", what + ":errno", strf("%s failed only because an allocation failure was injected (it succeeds when re-issued) but reported errno %s instead of ENOMEM", what.c_str(), errno_name(first_err)));
}

// C11: reporting discipline of the library call that has just returned (the callbacks recorded
// since the last LibCall was constructed belong to it).
//   failed     the call returned its failure value
//   err        errno after the call
//   installed  an error function was given to the object the call works on
//   mode       C11_MUST (manual: calls the error function on failure), C11_SILENT (manual: never
//              calls it), C11_MAY (manual is not explicit)
void c11_discipline(Ctx &c, const std::string &site, const char *fn, bool failed, int err, bool installed, int mode)
{
    if (c.violated || !c.c11) return;
    int last = -1, last_e = 0, nreports = 0;
    for (auto &cb : g_sim.callbacks) {
	if (cb.msg.empty() || cb.msg.find('\n') != std::string::npos) { c.violate("c11", site + ":message", strf("%s handed the error function a message that is not a single line: %s", fn, Json(cb.msg).str().c_str())); return; }
	if (cb.category < VNAERR_SYSTEM || cb.category > VNAERR_INTERNAL) { c.violate("c11", site + ":category", strf("%s reported category %d", fn, cb.category)); return; }
	if (cb.category != VNAERR_WARNING) {
	    last = cb.category; last_e = cb.err;
	    // reports are counted per object (error_arg): a vnacal call that fails inside the caller's vnadata_t
	    // legitimately reports once through each object's error function
	    int same = 0;
	    for (auto &cb2 : g_sim.callbacks) if (cb2.category != VNAERR_WARNING && cb2.arg == cb.arg) ++same;
	    nreports = std::max(nreports, same);
	}
    }
    if (!g_sim.callbacks.empty()) c.count("c11.calls_with_callback");
    if (!installed && !g_sim.callbacks.empty()) { c.violate("c11", site + ":callback", strf("%s called an error function although none was installed", fn)); return; }
    if (mode == C11_SILENT && !g_sim.callbacks.empty()) { c.violate("c11", site + ":callback", strf("%s is documented not to invoke the error function but did: %s", fn, g_sim.callbacks[0].msg.c_str())); return; }
    if (!failed) {
	if (last >= 0) c.violate("c11", site + ":callback", strf("%s reported success after telling the error function: %s", fn, g_sim.callbacks.back().msg.c_str()));
	else c.count("c11.success_checked");
	return;
    }
    if (err == 0) { c.violate("c11", site + ":errno", strf("%s returned its failure value with errno 0", fn)); return; }
    if (installed && mode == C11_MUST && nreports > 1) { c.violate("c11", site + ":callback", strf("%s reported %d errors for one failing call: \"%s\" ... \"%s\"", fn, nreports, g_sim.callbacks.front().msg.c_str(), g_sim.callbacks.back().msg.c_str())); return; }
    if (nreports > 1) c.count("c11.multiple_reports_seen");
    if (installed && mode == C11_MUST && last < 0) { c.violate("c11", site + ":callback", strf("%s failed (errno %s) without calling the error function", fn, errno_name(err))); return; }
    // a stream that errors or ends early makes the parsers see something else than the file: which of the two
    // reports (system error of the stream, syntax error of what was read) ends up in errno is not judged
    bool stream_fault = g_sim.fired_read_eio || g_sim.fired_read_eof || g_sim.fired_write_err || g_sim.fired_close_err || g_sim.fired_open;
    if (last >= 0 && stream_fault) { c.count("c11.reported_failure_under_stream_fault"); return; }
    if (last >= 0) {
	int want = last == VNAERR_USAGE ? EINVAL : last == VNAERR_MATH ? EDOM : last == VNAERR_SYNTAX ? EBADMSG : last == VNAERR_VERSION ? ENOPROTOOPT : last == VNAERR_INTERNAL ? ENOSYS : 0;
	if (want && err != want) { c.violate("c11", site + ":errno", strf("%s reported category %d (%s) but returned with errno %s", fn, last, g_sim.callbacks.back().msg.c_str(), errno_name(err))); return; }
	if (want && last_e != want) { c.violate("c11", site + ":errno", strf("%s: errno was %s, not %s, while the error function ran", fn, errno_name(last_e), errno_name(want))); return; }
	if (!want && err == 0) { c.violate("c11", site + ":errno", strf("%s reported a system error with errno 0", fn)); return; }
    }
    c.count(mode == C11_SILENT ? "c11.silent_failure_checked" : last >= 0 ? "c11.reported_failure_checked" : "c11.unreported_failure_seen");
    if (mode != C11_SILENT && last < 0 && installed) c.count(std::string("c11.unreported.") + fn);
}

void c11_auto(Ctx &c, const char *fn, bool failed, int err)
{
    if (!c.c11 || c.violated) return;
    std::string f = fn;
    if (f == "vnacal_load") return;	// judged at the call site (stream faults make its outcome open)
    int mode = C11_MAY;
    auto starts = [&](const char *p) { return f.compare(0, strlen(p), p) == 0; };
    if (starts("vnacal_find_") || f == "vnacal_delete_calibration" || starts("vnacal_property_") || (starts("vnacal_get_") && f != "vnacal_get_parameter_value")) mode = C11_SILENT;
    else if (starts("vnacal_new_") || starts("vnacal_make_") || f == "vnacal_get_parameter_value" || f == "vnacal_delete_parameter" ||	// vnacal_new(3), vnacal_parameter(3)
	    f == "vnacal_create" || f == "vnacal_save" || f == "vnacal_add_calibration" || starts("vnacal_apply")) mode = C11_MUST;	// vnacal(3)
    else if (starts("vnaproperty_import") || starts("vnaproperty_export")) mode = C11_MUST;
    // vnaproperty queries answer -1 / NULL for a node that exists but is null and leave errno alone
    // (vnaproperty(3) documents this for get_subtree and is silent for the others): errno is judged
    // by the document model at the call site, not here
    if (failed && err == 0 && (f == "vnaproperty_type" || f == "vnaproperty_count" || f == "vnaproperty_keys" || f == "vnaproperty_get" || f == "vnaproperty_get_subtree" ||
		f == "vnacal_property_type" || f == "vnacal_property_count" || f == "vnacal_property_keys" || f == "vnacal_property_get" || f == "vnacal_property_get_subtree")) { c.count("c11.null_node_query_seen"); return; }
    c11_discipline(c, f, fn, failed, err, starts("vnaproperty_") && mode != C11_MUST ? false : c.cb_installed, mode);
}

void check_ledger_empty(Ctx &c, const char *when)
{
    if (c.violated) return;
    auto live = ledger_dump();
    long nvna = 0, nyaml = 0;
    for (auto &li : live) (li.domain == 1 ? nyaml : nvna)++;
    if (live.empty()) return;
    const LeakInfo &li = live.front();
    std::string fn = symbolize_pc(li.pc);
    c.violate("leak", fn,
	    strf("%s: %ld VNA-domain and %ld YAML-domain blocks still allocated; first: %zu bytes allocated in %s during op %ld",
		when, nvna, nyaml, li.size, fn.c_str(), li.op));
}

// ---------------------------------------------------------------- engines
static std::vector<Engine> &engines()
{
    static std::vector<Engine> *v = new std::vector<Engine>();
    return *v;
}
void register_engine(const Engine &e) { engines().push_back(e); }
const Engine *find_engine(const std::string &name)
{
    for (auto &e : engines()) if (name == e.name) return &e;
    return nullptr;
}
