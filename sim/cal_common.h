// Shared by the calibration engines: parameter / standard / session descriptions, the
// routines that feed a standard's (simulated) measurement to libvna and apply a solved
// calibration to a device, and the classification of standard sets (C20).
#pragma once
#include "core.h"
#include "vnaworld.h"
#include "docmodel.h"

struct ParamSpec {
    int kind = 0;	// 0 predefined, 1 scalar, 2 vector, 3 unknown
    int predefined = VNACAL_MATCH;
    zc value;		// scalar value; for unknown: the true value
    std::vector<double> kf;	// vector knots
    std::vector<zc> kv;
    int gclass = 0;	// generating function of a vector parameter
    long gseed = 0;
    zc guess;		// unknown: initial guess (scalar)
    bool corr = false;	// unknown made by vnacal_make_correlated_parameter (kept near another parameter with a given sigma)
    int corr_other = -1;	// ... index of that other parameter in the engine's list (-1: predefined)
    std::vector<double> sigma_range;	// ... first and last frequency of its sigma vector (empty: one sigma for all frequencies)
    std::vector<double> sf, sv;	// ... the sigma vector: frequencies (one entry: no frequency dependence) and values
    bool known() const { return kind != 3; }
};

// permitted frequency range of a parameter used as a standard: that of the vector parameter at the end of its chain of initial
// guesses (kf of an unknown holds it), cut down by the parameter's own sigma vector if it is a correlated one; false: unrestricted
static inline bool param_frange(const ParamSpec &p, double &lo, double &hi)
{
    bool have = false;
    if ((p.kind == 2 || p.kind == 3) && !p.kf.empty()) { lo = p.kf.front(); hi = p.kf.back(); have = true; }
    if (p.kind == 3 && p.corr && p.sigma_range.size() == 2) {
	lo = have ? std::max(lo, p.sigma_range[0]) : p.sigma_range[0];
	hi = have ? std::min(hi, p.sigma_range[1]) : p.sigma_range[1];
	have = true;
    }
    return have;
}

// sigma of a correlated parameter at a frequency that is one of its sigma knots (C10: "evaluates exactly to the supplied value at
// each supplied frequency"); NaN if f is not a knot
static inline double sigma_at_knot(const ParamSpec &p, double f)
{
    if (p.sf.size() <= 1) return p.sv.empty() ? NAN : p.sv[0];
    for (size_t j = 0; j < p.sf.size(); ++j) if (fabs(p.sf[j] - f) <= 1e-9 * f) return p.sv[j];
    return NAN;
}

// generating functions for frequency dependent standards: low-order rational in x = f / 1e9
static inline zc gen_gamma(long seed, int gclass, double f)
{
    double x = f / 1e9;
    auto u = [&](int k) { return 2 * VnaWorld::u(seed, 501, k, gclass) - 1; };
    zc a0(0.6 * u(1), 0.6 * u(2)), a1(0.1 * u(3), 0.1 * u(4)), b1(0.05 * u(5), 0.05 * u(6));
    switch (gclass) {
    case 0: return a0;					// constant
    case 1: return a0 + a1 * x;				// linear
    case 2: return (a0 + a1 * x) / (zc(1, 0) + b1 * x);	// first-order rational
    default: return a0 + a1 * x + zc(0.02 * u(7), 0.02 * u(8)) * x * x;	// quadratic
    }
}
static inline zc param_truth(const ParamSpec &p, double f)
{
    switch (p.kind) {
    case 0: return std_gamma_predefined(p.predefined);
    case 1: return p.value;
    case 2: return gen_gamma(p.gseed, p.gclass, f);
    default: return p.value;
    }
}

struct StdSpec {
    int kind = 0;		// 0 single reflect, 1 double reflect, 2 through, 3 line (2x2), 4 mapped n-port matrix
    std::vector<int> ports;	// VNA ports (1-based) of the standard, in the standard's own port order
    std::vector<int> params;	// indices into the parameter list: kind 0: 1, kind 1: 2, kind 3: 4 (row major), kind 4: n*n
    bool full = true;		// full rows x columns measurement matrix, or abbreviated to the standard's ports
    int variant = 0;		// 0 native entry point, 1 the same standard through vnacal_new_add_mapped_matrix*,
				// 2 (through only) as a line with handles (0,1;1,0)
    double ab_scale = 1.0;	// common factor applied to simultaneous a and b readings
    double rot = 0;		// the reflect actually connected is the (unknown) parameter's value turned by this angle: the same unknown handle
				// stands for different physical standards in different calibrations
};

struct SessionSpec {
    int type = VNACAL_T8;
    int P = 1;
    int R = 0, C = 0;		// rows / columns of a rectangular calibration (0: square, P x P)
    int F = 1;
    std::vector<double> fv;
    zc z0 = zc(50, 0);
    bool ab = false;
    bool set_z0 = false;
    VnaWorld world;
    std::vector<StdSpec> stds;
    int dead_f = -1;		// the instrument reads zero at this frequency index, whatever is connected (the system is singular there and only there)
};

static inline int ss_rows(const SessionSpec &s) { return s.R > 0 ? s.R : s.P; }
static inline int ss_cols(const SessionSpec &s) { return s.C > 0 ? s.C : s.P; }
static inline bool ss_rect(const SessionSpec &s) { return ss_rows(s) != ss_cols(s); }

// S matrix (P x P) a standard presents to the instrument: unused VNA ports are terminated in
// matched loads without coupling
static inline Mat std_truth(const SessionSpec &ss, const StdSpec &st, const std::vector<ParamSpec> &params, double f)
{
    int P = ss.P;
    Mat S(P, P);
    auto val = [&](int k) { const ParamSpec &q = params[(size_t)st.params[(size_t)k]]; zc v = param_truth(q, f); if (st.rot != 0 && q.kind == 3 && !q.corr) v *= std::polar(1.0, st.rot); return v; };
    switch (st.kind) {
    case 0: S(st.ports[0] - 1, st.ports[0] - 1) = val(0); break;
    case 1: S(st.ports[0] - 1, st.ports[0] - 1) = val(0); S(st.ports[1] - 1, st.ports[1] - 1) = val(1); break;
    case 2: S(st.ports[0] - 1, st.ports[1] - 1) = 1; S(st.ports[1] - 1, st.ports[0] - 1) = 1; break;
    case 3:
	for (int i = 0; i < 2; ++i) for (int j = 0; j < 2; ++j) S(st.ports[i] - 1, st.ports[j] - 1) = val(i * 2 + j);
	break;
    default: {
	int n = (int)st.ports.size();
	for (int i = 0; i < n; ++i) for (int j = 0; j < n; ++j) S(st.ports[i] - 1, st.ports[j] - 1) = val(i * n + j);
    }
    }
    return S;
}

// buffers handed to libvna: matrix of pointers to per-frequency vectors, each exactly F long
struct MeasBuf {
    int rows = 0, cols = 0, F = 0;
    std::vector<std::vector<cplx>> cells;
    std::vector<cplx *> ptrs;
    void shape(int r, int c, int f) {
	rows = r; cols = c; F = f;
	cells.assign((size_t)r * c, std::vector<cplx>());
	for (auto &v : cells) { v.reserve((size_t)f + 1); v.assign((size_t)f, mkc(0, 0)); }
	ptrs.resize((size_t)r * c);
	for (size_t k = 0; k < cells.size(); ++k) ptrs[k] = cells[k].data();
    }
    cplx &at(int i, int j, int f) { return cells[(size_t)i * cols + j][(size_t)f]; }
};

// 'a' matrix of the instrument for a given drive: close to identity with some source cross-talk
static inline Mat world_a(const VnaWorld &w, int n, double f, long salt)
{
    Mat a(n, n);
    for (int i = 0; i < n; ++i) for (int j = 0; j < n; ++j) {
	double re = i == j ? 1.0 + 0.2 * (2 * VnaWorld::u(w.seed, 900 + salt, i, j) - 1) : 0.05 * (2 * VnaWorld::u(w.seed, 900 + salt, i, j) - 1);
	double im = 0.05 * (2 * VnaWorld::u(w.seed, 950 + salt, i, j) - 1) * (1 + 0.1 * f / w.fref);
	a(i, j) = zc(re, im);
    }
    return a;
}
static inline bool is_ue14(int type) { return type == VNACAL_UE14 || type == VNACAL_E12; }

// in-system unknowns of a calibration type (vnacal_new(3) table; leakage terms of the
// 10/12/14-term types lie outside the linear systems)
static inline int cal_unknowns(int type, int P, bool per_column)
{
    switch (type) {
    case VNACAL_T8: case VNACAL_U8: case VNACAL_TE10: case VNACAL_UE10: return 4 * P - 1;
    case VNACAL_T16: case VNACAL_U16: return 4 * P * P - 1;
    default: return per_column ? 2 * P + 1 : (2 * P + 1) * P;
    }
}
