// Plan generator of the cal engine: calibration sessions, a parameter churner and a catalogue
// task are cooperative tasks; a seeded scheduler decides which task issues its next operation.
#include "core.h"
#include "cal_common.h"

namespace {

struct GStd { int kind; bool full; int variant; int p1, p2; long pref[9]; double ab_scale; double rot; };	// (kind 4, an n-port matrix standard, has n*n parameters)

struct GSession {
    int sid = 0;
    int state = 0;		// 0 idle, 1 adding, 2 solved, 3 added, 4 done
    int type = 0, P = 1, F = 1;
    bool ab = false;
    std::vector<GStd> todo;
    size_t next = 0;
    int name = 0;
    int applies = 0;
    bool fv_late = false, fv_done = false;
    double fmin = 1e9, fmax = 2e9;
    bool has_unknown = false;
    long poison_ref = -1;	// unknown parameter named only by a refused standard of this session
    bool rect = false;		// 2x1 (U / E types) or 1x2 (T types) calibration
    bool dead = false;		// the instrument reads zero at one of the later frequencies
};

struct CGen {
    Rng rng;
    long nparams = 0;		// number of parameter table entries the engine will have created
    std::vector<long> scalars_short, scalars_open, scalars_match;
    explicit CGen(uint64_t s) : rng(s) {}
    Op mk(const char *k, std::initializer_list<long> i, int task) { Op o; o.k = k; o.i = i; if (o.i.size() < 16) o.i.resize(16, 0); o.i[15] = task; return o; }
};

} // namespace

Plan cal_gen(const std::string &check, const std::string &tier, uint64_t seed, long run)
{
    CGen g(hash_mix(hash_mix(seed, fnv1a(check)), (uint64_t)run));
    Rng &rng = g.rng;
    Plan plan;
    std::string id = check.substr(0, 3);
    bool thorough = tier == "thorough";
    bool retry = check.find("retry") != std::string::npos;
    bool c20 = id == "C20" || retry, c17 = id == "C17", c10 = id == "C10", c16 = !retry && (id == "C16" || id == "C11" || id == "C03" || id == "C07");
    bool c12 = id == "C12";
    bool c07 = id == "C07" || check.find("store") != std::string::npos;
    if (c12) c16 = true;
    if (id == "C11") plan.cfg["c11"] = 1;
    bool faults = check.find("faulty") != std::string::npos;
    plan.cfg["callback"] = rng.chance(0.85) ? 1 : 0;
    plan.cfg["solo_twin"] = ((c16 && !c07) || c17) ? 1 : 0;
    plan.cfg["read_frag"] = rng.chance(0.5) ? 0L : rng.pick(std::vector<long>{1, 2, 3, 7, 64});
    plan.cfg["bufsize"] = rng.chance(0.5) ? -1L : rng.pick(std::vector<long>{0, 1, 7, 64, 4096});
    int nsaved = 0;
    auto prop_op = [&](int task) {
	static const char *KEYS[] = {"a", "b", "note", "x1", "my key", "1st", "a.b", "c=d", "h#", "t ", "\xc3\xa9", "k[0]", "-d", "100%", "~", "null"};
	static const char *VALS[] = {"v", "1", "3.14", "", " ", " lead", "trail ", "~", "null", "true", "0x1", ": ", "- x", "#c", "a #c", "key: v", "[a]", "{a: b}", "'q'", "\"dq\"", "|", "a\nb", "\n", "a\n", "\ta", "\xc3\xa9", "\xe2\x80\xa8", "\xc2\x85", "%s%d%n", "a=b", "---", "x: ", "\\", "it's", "0", ".5", "<<", "!!str a"};
	Op o = g.mk(rng.chance(0.88) ? "vp_set" : "vp_del", {}, task);
	int n = (int)rng.range(1, 3);
	o.i.assign(16, 0);
	o.i[15] = task;
	o.i[0] = rng.chance(0.4) ? -1 : (long)rng.below(8);
	o.i[2] = rng.chance(0.2);
	o.i[3] = rng.chance(0.7) ? 0 : 2;
	o.i[4] = o.k == "vp_set" && rng.chance(0.1) ? 1 : 0;
	o.i[5] = rng.chance(0.15);
	o.i[7] = n;
	for (int q = 0; q < n; ++q) {
	    if (q > 0 && rng.chance(0.3)) o.s.push_back(rng.chance(0.7) || c12 ? strf("i:%ld", (long)rng.below(3)) : std::string("a:"));
	    else o.s.push_back(std::string("k:") + KEYS[rng.below(sizeof KEYS / sizeof *KEYS)]);
	}
	if (o.k == "vp_del") for (auto &e : o.s) if (e == "a:") e = "i:0";
	o.s.push_back(VALS[rng.below(sizeof VALS / sizeof *VALS)]);
	o.s.push_back("");
	if (o.k == "vp_del" && rng.chance(0.3)) o.i[1] = 3;
	plan.ops.push_back(o);
    };
    int nsess = c16 ? (int)rng.range(2, 4) : c20 ? (int)rng.range(1, 2) : 1;
    if (c10) nsess = (int)rng.range(1, 2);
    plan.cfg["sessions"] = nsess;
    int maxP = thorough ? 3 : (rng.chance(0.25) ? 3 : 2);
    long budget = c16 ? rng.range(20, thorough ? 100 : 70) : rng.range(10, 60);
    if (c12) { budget = rng.range(8, 30); nsess = (int)rng.range(1, 2); maxP = 2; plan.cfg["strict_enomem"] = 1; plan.cfg["solo_twin"] = 0; }
    plan.cfg["budget"] = budget;

    // every plan starts with a few scalar parameters standing for imperfect short / open / match
    auto mkscalar = [&](double re, double im, int task) { Op o = g.mk("mkscalar", {}, task); o.d = {re, im}; plan.ops.push_back(o); return g.nparams++; };
    long sh = mkscalar(-0.95 + 0.04 * rng.uni(), 0.1 * rng.uni() - 0.05, 9);
    long op_ = mkscalar(0.93 + 0.04 * rng.uni(), 0.12 * rng.uni() - 0.02, 9);
    long ma = mkscalar(0.04 * rng.uni() - 0.02, 0.04 * rng.uni() - 0.02, 9);
    double gfmin = 1e8 * (1 + rng.below(20)), gfmax = gfmin * (1.5 + 3 * rng.uni());
    // vector (frequency dependent) versions covering the global band with margin
    auto mkvector = [&](int knots, int gclass, double lo, double hi, int task) { Op o = g.mk("mkvector", {knots, (long)rng.below(1000000), gclass}, task); o.d = {lo, hi}; plan.ops.push_back(o); return g.nparams++; };

    long unknown_ref = -1;
    std::vector<GSession> sess((size_t)nsess);
    for (int s = 0; s < nsess; ++s) sess[(size_t)s].sid = s;

    auto reflect_ref = [&](int which) -> long {	// which: 0 short, 1 open, 2 match
	bool predefined = rng.chance(0.6);
	if (predefined) return which == 0 ? -3 : which == 1 ? -2 : -1;
	return which == 0 ? sh : which == 1 ? op_ : ma;
    };

    auto plan_session = [&](GSession &S) {
	static const int types[] = {VNACAL_T8, VNACAL_U8, VNACAL_TE10, VNACAL_UE10, VNACAL_T16, VNACAL_U16, VNACAL_UE14, VNACAL_E12};
	S.type = types[rng.below(8)];
	S.P = (int)rng.range(1, maxP);
	WorldClass cls = world_class_of(S.type);
	if (cls == W16 && S.P > 2) S.P = 2;
	S.F = (int)rng.range(1, c10 ? 5 : 3);
	S.ab = rng.chance(0.4);
	S.fmin = gfmin * (1 + 0.2 * rng.uni()); S.fmax = S.fmin + (gfmax - gfmin) * (0.3 + 0.6 * rng.uni());
	S.todo.clear(); S.next = 0; S.applies = 0; S.has_unknown = false; S.poison_ref = -1; S.fv_late = (c10 || c16) && rng.chance(0.2); S.fv_done = !S.fv_late;
	S.name = (int)rng.below(8);
	// a VNA that drives (or detects) on one of its two ports only
	S.rect = S.P == 2 && !c12 && rng.chance(c10 ? 0.05 : 0.15);	// (16-term types too: T16 as 1x2, U16 as 2x1)
	S.dead = !S.rect && !c12 && S.F >= 2 && rng.chance(0.04);
	bool need_full = cls != W8 || S.rect;
	auto shape = [&]() { return need_full ? true : rng.chance(0.5); };
	int P = S.P;
	bool eight = cls == W8 || cls == W10;
	int recipe = 0;	// 0 textbook, 1 through-reflect-line, 2 reflects on one port + a spanning tree of throughs
	if (eight && !S.rect && !c12 && !c10) { double u = rng.uni(); if (P == 2 && u < 0.10) recipe = 1; else if (P >= 2 && u < 0.28) recipe = 2; }
	if (recipe == 1) {
	    // TRL: known through, the same unknown reflection on both ports, a matched line of unknown transmission
	    bool neg = rng.chance(0.5);
	    double ph = 0.1 * (2 * rng.uni() - 1), mag = 0.85 + 0.1 * rng.uni();
	    Op mu = g.mk("mkunknown", {neg ? -3 : -2}, S.sid); mu.d = {(neg ? -1 : 1) * mag * cos(ph), mag * sin(ph)}; plan.ops.push_back(mu);
	    long u = g.nparams++;
	    double lmag = 0.85 + 0.12 * rng.uni(), lph = -(30 + 120 * rng.uni()) * M_PI / 180;
	    double gmag = lmag * (0.95 + 0.1 * rng.uni()), gph = lph + (25 * (2 * rng.uni() - 1)) * M_PI / 180;
	    long gl = mkscalar(gmag * cos(gph), gmag * sin(gph), S.sid);
	    Op ml = g.mk("mkunknown", {gl}, S.sid); ml.d = {lmag * cos(lph), lmag * sin(lph)}; plan.ops.push_back(ml);
	    long l = g.nparams++;
	    S.todo.push_back(GStd{2, true, (int)rng.below(3), 1, 2, {0, 0, 0, 0}, 1.0});
	    S.todo.push_back(GStd{1, true, (int)rng.below(2), 1, 2, {u, u, 0, 0}, 1.0});
	    S.todo.push_back(GStd{3, true, (int)rng.below(2), 1, 2, {-1, l, l, -1}, 1.0});
	    if (rng.chance(0.3)) S.todo.push_back(GStd{0, true, (int)rng.below(2), (int)rng.range(1, 2), 0, {reflect_ref((int)rng.below(3)), 0, 0, 0}, 1.0});	// a redundant known reflect: general solver instead of the closed form
	    S.has_unknown = false;
	} else if (recipe == 2) {
	    int root = (int)rng.range(1, P);
	    for (int which = 0; which < 3; ++which) S.todo.push_back(GStd{0, shape(), (int)rng.below(2), root, 0, {reflect_ref(which), 0, 0, 0}, 1.0});
	    std::vector<int> order; for (int p = 1; p <= P; ++p) if (p != root) order.push_back(p);
	    for (size_t k = order.size(); k > 1; --k) std::swap(order[k - 1], order[(size_t)rng.below((long)k)]);
	    std::vector<int> tree = {root};
	    for (int p : order) { int q = tree[(size_t)rng.below((long)tree.size())]; GStd st{2, shape(), (int)rng.below(3), q, p, {0, 0, 0, 0}, 1.0}; if (rng.chance(0.4)) std::swap(st.p1, st.p2); S.todo.push_back(st); tree.push_back(p); }
	} else if (cls == W16 && P == 2 && S.rect) {
	    // eleven generic fully specified two-port standards (nine would do)
	    for (int q = 0; q < 11; ++q) {
		long m[4];
		for (int k = 0; k < 4; ++k) { bool diag = k == 0 || k == 3; double mag = diag ? 0.9 * rng.uni() : 0.15 + 0.8 * rng.uni(), ph = 2 * M_PI * rng.uni(); m[k] = mkscalar(mag * cos(ph), mag * sin(ph), S.sid); }
		GStd st{3, true, (int)rng.below(2), 1, 2, {m[0], m[1], m[2], m[3]}, 1.0};
		if (rng.chance(0.3)) { std::swap(st.p1, st.p2); }
		S.todo.push_back(st);
	    }
	} else if (cls == W16 && P == 2) {
	    int combos[8][2] = {{2, 2}, {0, 0}, {1, 1}, {0, 1}, {1, 0}, {0, 2}, {2, 1}, {1, 2}};
	    for (auto &cb : combos) {
		GStd st{1, true, (int)rng.below(2), 1, 2, {cb[0] == 0 ? -3 : cb[0] == 1 ? -2 : -1, cb[1] == 0 ? -3 : cb[1] == 1 ? -2 : -1, 0, 0}, 1.0};
		if (rng.chance(0.3)) { std::swap(st.p1, st.p2); std::swap(st.pref[0], st.pref[1]); }
		S.todo.push_back(st);
	    }
	} else {
	    // three reflects per port, singly or paired across ports
	    bool pair = P >= 2 && rng.chance(0.5);
	    if (pair) {
		for (int which = 0; which < 3; ++which) {
		    for (int p = 1; p <= P; p += 2) {
			int q = p + 1 <= P ? p + 1 : 1;
			if (q == p) continue;
			int w2 = (which + (int)rng.below(3)) % 3;
			(void)w2;
			GStd st{1, shape(), (int)rng.below(2), p, q, {reflect_ref(which), reflect_ref((which + 1) % 3), 0, 0}, 1.0};
			S.todo.push_back(st);
		    }
		}
		// the pairing above gives every port all three values only when the cyclic shift covers it; top up singly
		for (int p = 1; p <= P; ++p) for (int which = 0; which < 3; ++which) if (rng.chance(0.5) || true) { GStd st{0, shape(), (int)rng.below(2), p, 0, {reflect_ref(which), 0, 0, 0}, 1.0}; if (rng.chance(0.45)) S.todo.push_back(st); }
		for (int p = 1; p <= P; ++p) for (int which = 0; which < 3; ++which) {
		    bool have = false;
		    for (auto &st : S.todo) {
			auto val = [&](long r) { return r == -3 || r == sh ? 0 : r == -2 || r == op_ ? 1 : 2; };
			if (st.kind == 0 && st.p1 == p && val(st.pref[0]) == which) have = true;
			if (st.kind == 1 && ((st.p1 == p && val(st.pref[0]) == which) || (st.p2 == p && val(st.pref[1]) == which))) have = true;
		    }
		    if (!have) S.todo.push_back(GStd{0, shape(), (int)rng.below(2), p, 0, {reflect_ref(which), 0, 0, 0}, 1.0});
		}
	    } else {
		for (int p = 1; p <= P; ++p) for (int which = 0; which < 3; ++which) S.todo.push_back(GStd{0, shape(), (int)rng.below(2), p, 0, {reflect_ref(which), 0, 0, 0}, 1.0});
	    }
	}
	for (int i = 1; i <= P && recipe == 0; ++i) for (int j = i + 1; j <= P; ++j) {
	    GStd st{2, shape(), (int)rng.below(3), i, j, {0, 0, 0, 0}, 1.0};
	    if (rng.chance(0.3)) std::swap(st.p1, st.p2);
	    S.todo.push_back(st);
	}
	// redundant extras (now and then many of them, so that the calibration's parameter table has to grow)
	int extras = (int)rng.below(3);
	if (c16 && !c12 && rng.chance(0.12)) extras = (int)rng.range(8, 14);
	for (int e = 0; e < extras; ++e) {
	    int p = (int)rng.range(1, P);
	    if (rng.chance(0.5) || P < 2) S.todo.push_back(GStd{0, shape(), (int)rng.below(2), p, 0, {mkscalar(0.5 * rng.uni() - 0.25, 0.5 * rng.uni() - 0.25, S.sid), 0, 0, 0}, 1.0});
	    else {
		int q = p % P + 1;
		long l11 = mkscalar(0.1 * rng.uni(), 0.1 * rng.uni(), S.sid), l21 = mkscalar(0.5 + 0.3 * rng.uni(), -0.3 * rng.uni(), S.sid), l22 = mkscalar(-0.1 * rng.uni(), 0.05, S.sid);
		// (now and then non-reciprocal, one transmission being exactly zero: an isolator)
		double iso = rng.uni();
		S.todo.push_back(GStd{3, shape(), (int)rng.below(2), p, q, {l11, iso < 0.15 ? -1 : l21, iso >= 0.15 && iso < 0.3 ? -1 : l21, l22}, 1.0});
	    }
	}
	// a redundant n-port standard given as a full matrix of parameters through vnacal_new_add_mapped_matrix, its ports
	// on the VNA ports in rotated order; some transmissions exactly zero (not necessarily in both directions)
	if (P >= 2 && P <= 3 && !S.rect && !c12 && rng.chance(0.12)) {
	    GStd st{4, true, 0, (int)rng.range(1, P), 0, {0, 0, 0, 0, 0, 0, 0, 0, 0}, 1.0};
	    for (int i = 0; i < P; ++i) for (int j = 0; j < P; ++j) {
		double mag = i == j ? 0.3 * rng.uni() : 0.25 + 0.35 * rng.uni(), ph = 2 * M_PI * rng.uni();
		st.pref[i * P + j] = (i != j && rng.chance(0.2)) ? -1 : mkscalar(mag * cos(ph), mag * sin(ph), S.sid);
	    }
	    S.todo.push_back(st);
	}
	// frequency dependent standards (interpolated parameters)
	if ((c10 || rng.chance(0.25)) && cls != W16) {
	    int knots = (int)rng.pick(std::vector<long>{2, 3, 5, 8, 16});
	    bool covers = !rng.chance(c10 ? 0.25 : 0.08);
	    double lo = covers ? S.fmin * (0.5 + 0.45 * rng.uni()) : S.fmin * (1.1 + 0.5 * rng.uni());
	    double hi = covers ? S.fmax * (1.05 + 0.5 * rng.uni()) : S.fmax * (0.5 + 0.4 * rng.uni());
	    if (hi <= lo) hi = lo * 1.5;
	    if (rng.chance(0.1)) { knots = 1; lo = hi = S.fmin; }
	    long v = mkvector(knots, (int)rng.below(3), lo, hi, S.sid);
	    int p = (int)rng.range(1, P);
	    S.todo.push_back(GStd{0, shape(), (int)rng.below(2), p, 0, {v, 0, 0, 0}, 1.0});
	}
	// two reflects correlated with known ones whose sigma vectors, on different grids and far from linear, have a knot at every
	// calibration frequency (compared at apply time with a twin that is given the knot values one frequency at a time)
	if ((c10 ? rng.chance(0.2) : rng.chance(0.04)) && cls != W16 && !c12 && !S.rect && S.F >= 2) {
	    int m1 = (int)rng.range(1, 2), m2 = m1 + (int)rng.range(1, 2);
	    for (int m : {m1, m2}) {
		double ph = 2 * M_PI * rng.uni(), mag = 0.3 + 0.6 * rng.uni();
		long other = mkscalar(mag * cos(ph), mag * sin(ph), S.sid);
		Op o = g.mk("mkcorr", {other, (long)(S.F - 1) * m + 1, 0, 1, (long)rng.below(60)}, S.sid);
		o.d = {S.fmin, S.fmax, 0.02 + 0.05 * rng.uni(), 0.01 * (2 * rng.uni() - 1), 0.01 * (2 * rng.uni() - 1)};
		plan.ops.push_back(o);
		long cp = g.nparams++;
		S.todo.push_back(GStd{0, shape(), (int)rng.below(2), (int)rng.range(1, P), 0, {cp, 0, 0, 0}, 1.0});
	    }
	}
	// a reflect correlated with a known one (vnacal_make_correlated_parameter): its sigma vector covers the band, or
	// misses it at one end (then the standard has to be refused)
	if ((c10 ? rng.chance(0.3) : rng.chance(0.06)) && cls != W16 && !c12) {
	    double ph = 2 * M_PI * rng.uni(), mag = 0.3 + 0.6 * rng.uni();
	    long other = rng.chance(0.7) ? mkscalar(mag * cos(ph), mag * sin(ph), S.sid) : mkvector((int)rng.pick(std::vector<long>{2, 3, 5}), (int)rng.below(3), S.fmin * 0.5, S.fmax * 1.6, S.sid);
	    int n = (int)rng.pick(std::vector<long>{1, 2, 3, 5});
	    double u = rng.uni();
	    double lo = u < 0.7 || u >= 0.85 ? S.fmin * (0.5 + 0.45 * rng.uni()) : S.fmin * (1.1 + 0.5 * rng.uni());
	    double hi = u < 0.85 ? S.fmax * (1.05 + 0.5 * rng.uni()) : S.fmax * (0.5 + 0.4 * rng.uni());
	    if (hi <= lo) hi = lo * 1.5;
	    Op o = g.mk("mkcorr", {other, n, rng.chance(0.5) ? 1 : 0}, S.sid);
	    o.d = {lo, hi, 0.02 + 0.05 * rng.uni(), 0.02 * (2 * rng.uni() - 1), 0.02 * (2 * rng.uni() - 1)};
	    plan.ops.push_back(o);
	    long cp = g.nparams++;
	    S.todo.push_back(GStd{0, shape(), (int)rng.below(2), (int)rng.range(1, P), 0, {cp, 0, 0, 0}, 1.0});
	}
	// an additional reflect whose value the library has to find (shared between sessions sometimes)
	if ((cls == W8 || cls == W10 || cls == W12) && S.P <= 2 && rng.chance(c16 ? 0.3 : c20 ? 0.25 : 0.1)) {
	    long u;
	    if (unknown_ref >= 0 && rng.chance(0.6)) u = unknown_ref;
	    else {
		double ph = 0.15 * (2 * rng.uni() - 1);
		double mag = 0.85 + 0.1 * rng.uni();
		bool neg = rng.chance(0.5);
		Op o = g.mk("mkunknown", {neg ? -3 : -2}, S.sid);
		o.d = {(neg ? -1 : 1) * mag * cos(ph), mag * sin(ph)};
		plan.ops.push_back(o);
		u = g.nparams++;
		unknown_ref = u;
	    }
	    S.todo.push_back(GStd{0, shape(), 0, (int)rng.range(1, S.P), 0, {u, 0, 0, 0}, 1.0});
	    S.has_unknown = true;
	}
	// common scaling of a and b: any unit must do (the quotient b a^-1 does not depend on it)
	if (S.ab && rng.chance(0.35)) for (auto &st : S.todo) st.ab_scale = rng.chance(0.5) ? 0.5 + 2 * rng.uni() : pow(10.0, rng.uni(-9.0, 9.0));
	// scheduler-chosen order
	for (size_t k = S.todo.size(); k > 1; --k) std::swap(S.todo[k - 1], S.todo[(size_t)rng.below((long)k)]);
	S.state = 1;
    };

    auto emit_new = [&](GSession &S) {
	Op o = g.mk("new", {S.sid, S.type, S.P, S.F, S.ab ? 1 : 0, (long)rng.below(1000000), rng.chance(0.3) ? 1 : 0, S.fv_late ? 1 : 0, S.rect ? (world_class_of(S.type) == W16 ? 2 : 1) : 0, S.dead ? 1 : 0}, S.sid);
	o.d = {S.fmin, S.fmax, rng.chance(0.5) ? 50.0 : 75.0, rng.chance(0.8) ? 0.0 : 5.0};
	plan.ops.push_back(o);
    };
    auto emit_add = [&](GSession &S, const GStd &st) {
	Op o = g.mk("add", {S.sid, st.kind, st.full ? 1 : 0, st.variant, st.p1, st.p2, st.pref[0], st.pref[1], st.pref[2], st.pref[3], st.pref[4], st.pref[5], st.pref[6], st.pref[7], st.pref[8]}, S.sid);
	o.d = {st.ab_scale, st.rot};
	if (faults && rng.chance(0.05)) { Fault f; f.t = "alloc.vna"; f.n = rng.range(1, 30); o.f.push_back(f); }
	plan.ops.push_back(o);
	// every predefined reference materialises one table entry in the engine
	int np = st.kind == 0 ? 1 : st.kind == 1 ? 2 : st.kind == 2 ? 0 : st.kind == 3 ? 4 : S.P * S.P;
	for (int q = 0; q < np; ++q) if (st.pref[q] < 0) ++g.nparams;
    };

    // one unknown parameter standing for two different physical reflects: first an extra standard of a one-port calibration
    // (a reflect some 140 degrees away from the parameter's initial guess), then the reflect of a through-reflect-line
    // calibration on the same vnacal_t, whose result must not depend on what the first one found
    if ((c17 || c16) && !c12 && nsess <= 2 && rng.chance(0.06)) {
	static const int t8[] = {VNACAL_T8, VNACAL_U8, VNACAL_TE10, VNACAL_UE10};
	static const int t1[] = {VNACAL_T8, VNACAL_U8, VNACAL_TE10, VNACAL_UE10, VNACAL_UE14, VNACAL_E12};
	double ph = 0.1 * (2 * rng.uni() - 1), mag = 0.85 + 0.1 * rng.uni();
	Op mu = g.mk("mkunknown", {-3}, 3); mu.d = {-mag * cos(ph), mag * sin(ph)}; plan.ops.push_back(mu);
	long U = g.nparams++;
	GSession A; A.sid = 3; A.P = 1; A.type = t1[rng.below(6)]; A.F = (int)rng.range(1, 3); A.ab = rng.chance(0.4);
	A.fmin = gfmin * (1 + 0.2 * rng.uni()); A.fmax = A.fmin + (gfmax - gfmin) * (0.3 + 0.6 * rng.uni());
	emit_new(A);
	for (long pre : {-3L, -2L, -1L}) emit_add(A, GStd{0, true, (int)rng.below(2), 1, 0, {pre, 0, 0, 0}, 1.0, 0.0});
	emit_add(A, GStd{0, true, (int)rng.below(2), 1, 0, {U, 0, 0, 0}, 1.0, (rng.chance(0.5) ? 1 : -1) * (2.1 + 0.7 * rng.uni())});
	plan.ops.push_back(g.mk("solve", {3}, 3));
	GSession B; B.sid = 2; B.P = 2; B.type = t8[rng.below(4)]; B.F = (int)rng.range(1, 3); B.ab = rng.chance(0.4);
	B.fmin = gfmin * (1 + 0.2 * rng.uni()); B.fmax = B.fmin + (gfmax - gfmin) * (0.3 + 0.6 * rng.uni());
	double lmag = 0.85 + 0.12 * rng.uni(), lph = -(30 + 120 * rng.uni()) * M_PI / 180;
	double gmag = lmag * (0.95 + 0.1 * rng.uni()), gph = lph + (25 * (2 * rng.uni() - 1)) * M_PI / 180;
	long gl = mkscalar(gmag * cos(gph), gmag * sin(gph), 2);
	Op ml = g.mk("mkunknown", {gl}, 2); ml.d = {lmag * cos(lph), lmag * sin(lph)}; plan.ops.push_back(ml);
	long L = g.nparams++;
	emit_new(B);
	std::vector<GStd> trl = {GStd{2, true, (int)rng.below(3), 1, 2, {0, 0, 0, 0}, 1.0, 0.0}, GStd{1, true, (int)rng.below(2), 1, 2, {U, U, 0, 0}, 1.0, 0.0}, GStd{3, true, (int)rng.below(2), 1, 2, {-1, L, L, -1}, 1.0, 0.0}};
	for (size_t k = trl.size(); k > 1; --k) std::swap(trl[k - 1], trl[(size_t)rng.below((long)k)]);
	for (auto &st : trl) emit_add(B, st);
	plan.ops.push_back(g.mk("solve", {2}, 2));
	long nm = 8 + rng.below(12);
	plan.ops.push_back(g.mk("addcal", {2, nm}, 2));
	plan.ops.push_back(g.mk("apply", {nm, (long)rng.below(1000000), (long)rng.below(3), 0, (long)rng.below(1 << 12)}, 2));
    }
    long steps = 0;
    int free_names = 0;
    (void)free_names;
    while (steps < budget) {
	++steps;
	int ntask = nsess + 2;
	int t = (int)rng.below(ntask);
	if (c20 || c17 || c10) if (rng.chance(0.7)) t = (int)rng.below(nsess);
	if (t < nsess) {
	    GSession &S = sess[(size_t)t];
	    if (S.state == 0 || S.state == 4) { plan_session(S); emit_new(S); continue; }
	    if (S.state == 1) {
		if (S.fv_late && !S.fv_done && (rng.chance(0.2) || S.next >= S.todo.size())) { plan.ops.push_back(g.mk("setfv", {S.sid}, S.sid)); S.fv_done = true; continue; }
		if (S.next < S.todo.size()) {
		    emit_add(S, S.todo[S.next++]);
		    // early solve attempts (too few standards reported; retried later)
		    if (rng.chance(c20 ? 0.5 : 0.1)) { Op so = g.mk("solve", {S.sid}, S.sid); if (faults && rng.chance(0.2)) { Fault f; f.t = "alloc.vna"; f.n = rng.range(1, 60); so.f.push_back(f); } plan.ops.push_back(so); if (c20 && rng.chance(0.2)) plan.ops.push_back(g.mk("solve", {S.sid}, S.sid)); }
		    if (c16 && !c12 && rng.chance(0.06)) {
			// delete a scalar parameter this session has already used in a single reflect and use the
			// same standard again: inside this vnacal_new_t the deleted handle must keep working
			std::vector<size_t> cand;
			for (size_t q = 0; q < S.next; ++q) if (S.todo[q].kind == 0 && S.todo[q].pref[0] >= 3 && S.todo[q].pref[0] != sh && S.todo[q].pref[0] != op_ && S.todo[q].pref[0] != ma && S.todo[q].pref[0] != unknown_ref) cand.push_back(q);
			if (!cand.empty()) {
			    const GStd &st0 = S.todo[cand[(size_t)rng.below((long)cand.size())]];
			    plan.ops.push_back(g.mk("delparam", {st0.pref[0]}, S.sid));
			    emit_add(S, st0);
			}
		    }
		    if (S.P >= 2 && S.poison_ref < 0 && rng.chance(id == "C11" ? 0.15 : 0.03)) {
			// a refused full-matrix standard: a fresh unknown parameter in its first cell, a deleted
			// handle in its last one.  It must add nothing: the unknown stays unsolved and the
			// session's own standards still determine the calibration.
			bool neg = rng.chance(0.5);	// (guess on the same side as the value, should the reference resolve to a usable standard after a reload)
			Op mu = g.mk("mkunknown", {neg ? -3 : -2}, S.sid); mu.d = {neg ? -0.9 : 0.9, 0.05}; plan.ops.push_back(mu);
			long u = g.nparams++;
			long d = mkscalar(0.3, 0.1, S.sid);
			plan.ops.push_back(g.mk("delparam", {d}, S.sid));
			Op o = g.mk("add", {S.sid, 3, 1, (long)rng.below(2), 1, 2, u, ma, ma, d}, S.sid);
			if (rng.chance(0.5)) { o.i[8] = d; o.i[9] = ma; }
			o.d = {1.0};
			plan.ops.push_back(o);
			S.poison_ref = u;
		    }
		    if (rng.chance(0.03)) {	// a rejected standard in between: bad port
			Op o = g.mk("add", {S.sid, (long)rng.below(3), 1, 0, rng.chance(0.5) ? 0 : S.P + 1, 1, -1, -2, -1, -1}, S.sid);
			o.d = {1.0};
			plan.ops.push_back(o);
			g.nparams += o.i[1] == 0 ? 1 : o.i[1] == 1 ? 2 : 0;
		    }
		    continue;
		}
		if (!c12 && S.fv_done && rng.chance(S.dead ? 0.6 : 0.15)) plan.ops.push_back(g.mk("merror", {S.sid, (long)rng.below(4), (long)rng.below(2), rng.chance(0.35) ? (long)rng.range(1, 2) : 0L}, S.sid));
		Op so = g.mk("solve", {S.sid}, S.sid);
		if (faults && rng.chance(0.3)) { Fault f; f.t = "alloc.vna"; f.n = rng.range(1, 80); so.f.push_back(f); plan.ops.push_back(so); so.f.clear(); }
		plan.ops.push_back(so);
		S.state = 2;
		continue;
	    }
	    if (S.state == 2) {
		plan.ops.push_back(g.mk("addcal", {S.sid, S.name}, S.sid)); S.state = 3;
		if (S.poison_ref >= 0) { Op o = g.mk("getpv", {S.poison_ref, 0, 0}, S.sid); o.d = {S.fmin + (S.fmax - S.fmin) * rng.uni()}; plan.ops.push_back(o); }
		if (S.has_unknown && unknown_ref >= 0) for (int q = (int)rng.range(1, 3); q > 0; --q) {
		    Op o = g.mk("getpv", {unknown_ref, 0, 0}, S.sid);
		    double w = rng.uni();
		    o.d = {w < 0.6 ? S.fmin + (S.fmax - S.fmin) * rng.uni() : w < 0.8 ? S.fmax * (1.2 + rng.uni()) : S.fmin * (0.2 + 0.6 * rng.uni())};
		    plan.ops.push_back(o);
		}
		continue;
	    }
	    if (S.state == 3) {
		if (S.applies < 2 && rng.chance(0.8)) {
		    long twin = c17 || rng.chance(0.5) ? (long)rng.below(1 << 12) : 0;
		    plan.ops.push_back(g.mk("apply", {S.name, (long)rng.below(1000000), (long)rng.below(3), c10 && rng.chance(0.5) ? 1 : 0, twin}, S.sid));
		    ++S.applies;
		    continue;
		}
		if (rng.chance(0.5)) plan.ops.push_back(g.mk("newfree", {S.sid}, S.sid));
		S.state = 4;
		continue;
	    }
	} else if (t == nsess) {
	    // parameter churner: forces slot reuse in the parameter table
	    double u = rng.uni();
	    int task = nsess;
	    if (u < 0.05 && c16) {
		// an unknown parameter that refers to (holds) a scalar with a lower handle; the scalar is deleted
		// first and stays alive through the unknown, then the unknown goes and takes it along; after
		// that new parameters have to find both free slots again
		long v = mkscalar(0.8, 0.05, task);	// (near the unknown's value, should a reference resolve to it after a reload)
		Op mu = g.mk("mkunknown", {v}, task); mu.d = {0.85, 0.0}; plan.ops.push_back(mu);
		long un = g.nparams++;
		plan.ops.push_back(g.mk("delparam", {v}, task));
		plan.ops.push_back(g.mk("delparam", {un}, task));
		for (int q = (int)rng.range(2, 6); q > 0; --q) mkscalar(2 * rng.uni() - 1, 2 * rng.uni() - 1, task);
	    }
	    else if (u < 0.3) mkscalar(2 * rng.uni() - 1, 2 * rng.uni() - 1, task);
	    else if (u < 0.45) mkvector((int)rng.pick(std::vector<long>{1, 2, 3, 5, 8, 16}), (int)rng.below(4), gfmin * (0.3 + 0.6 * rng.uni()), gfmax * (1.1 + rng.uni()), task);
	    else if (u < 0.7 && g.nparams > 3) plan.ops.push_back(g.mk("delparam", {rng.chance(0.85) ? (long)rng.range(3, g.nparams - 1) : -(long)rng.range(1, 3)}, task));
	    else if (g.nparams > 0) {
		Op o = g.mk("getpv", {(long)rng.below(g.nparams), rng.chance(0.4) ? 1 : 0, (long)rng.below(16)}, task);
		double w = rng.uni();
		double f = w < 0.6 ? gfmin * (0.3 + 0.6 * rng.uni()) + (gfmax * 1.5 - gfmin * 0.5) * rng.uni() : w < 0.8 ? gfmin * 0.05 * rng.uni() : gfmax * (2.5 + 3 * rng.uni());
		o.d = {f};
		plan.ops.push_back(o);
		if (c10 && rng.chance(0.5)) { Op o2 = o; o2.d = {f * (0.9 + 0.2 * rng.uni())}; plan.ops.push_back(o2); }
	    }
	} else {
	    // catalogue task
	    double u = rng.uni();
	    int task = nsess + 1;
	    if (c07) {
		double v = rng.uni();
		if (v < 0.45) { prop_op(task); continue; }
		if (v < 0.55) { long fp = rng.chance(0.2) ? 1000 : rng.range(1, 40), dp = rng.chance(0.25) ? 1000 : rng.range(1, 40); if (rng.chance(0.03)) fp = 0; plan.ops.push_back(g.mk("vprec", {fp, dp}, task)); continue; }
		if (v < 0.75) {
		    Op o = g.mk("vsave", {rng.chance(0.15) ? 1 : 0}, task);
		    o.s = {std::string(rng.pick(std::vector<std::string>{"c0.vnacal", "c1.vnacal", "c0.vnacal.bak", "c1"}))};
		    if (faults && rng.chance(0.3)) { Fault f; double w2 = rng.uni(); if (w2 < 0.4) { f.t = "alloc.vna"; f.n = rng.range(1, 40); } else if (w2 < 0.6) { f.t = "alloc.yaml"; f.n = rng.range(1, 200); } else if (w2 < 0.85) { f.t = "write.err"; f.n = rng.range(0, 3000); f.e = ENOSPC; } else if (w2 < 0.93) f.t = "close.err"; else { f.t = "open.fail"; f.e = EACCES; } o.f.push_back(f); }
		    plan.ops.push_back(o);
		    ++nsaved;
		    continue;
		}
		if (v < 0.9 && nsaved > 0) {
		    Op o = g.mk("vload", {0}, task);
		    o.s = {std::string(rng.pick(std::vector<std::string>{"c0.vnacal", "c1.vnacal", "c0.vnacal.bak", "c1"}))};
		    if (faults && rng.chance(0.3)) { Fault f; double w2 = rng.uni(); if (w2 < 0.4) { f.t = "alloc.vna"; f.n = rng.range(1, 120); } else if (w2 < 0.6) { f.t = "alloc.yaml"; f.n = rng.range(1, 300); } else if (w2 < 0.8) { f.t = "read.eio"; f.n = rng.range(0, 3000); } else { f.t = "read.eof"; f.n = rng.range(0, 3000); } o.f.push_back(f); }
		    plan.ops.push_back(o);
		    // sessions do not survive the restart
		    for (auto &S : sess) S.state = 0;
		    continue;
		}
	    }
	    if (u < 0.3) plan.ops.push_back(g.mk("query", {0}, task));
	    else if (u < 0.45) plan.ops.push_back(g.mk("delcal", {(long)rng.below(8), (long)rng.range(-1, 8)}, task));
	    else if (u < 0.6) plan.ops.push_back(g.mk("apply", {(long)rng.below(8), (long)rng.below(1000000), (long)rng.below(3), 0, 0}, task));
	    else {
		Op o = g.mk(rng.chance(0.7) ? "pset" : "pget", {rng.chance(0.4) ? -1 : (long)rng.below(8)}, task);
		o.s = {rng.pick(std::vector<std::string>{"k", "note", "x1", "owner"}), strf("v%ld", (long)rng.below(1000))};
		plan.ops.push_back(o);
	    }
	}
    }
    // let started sessions finish so that most runs end with applied calibrations
    for (auto &S : sess) {
	if (S.state == 1) {
	    if (S.fv_late && !S.fv_done) plan.ops.push_back(g.mk("setfv", {S.sid}, S.sid));
	    while (S.next < S.todo.size()) emit_add(S, S.todo[S.next++]);
	    plan.ops.push_back(g.mk("solve", {S.sid}, S.sid));
	    S.state = 2;
	}
	if (S.state == 2) { plan.ops.push_back(g.mk("addcal", {S.sid, S.name}, S.sid)); S.state = 3; }
	if (S.state == 3 && S.applies == 0) plan.ops.push_back(g.mk("apply", {S.name, (long)rng.below(1000000), (long)rng.below(3), 0, c17 || c16 ? (long)rng.below(1 << 12) : 0}, S.sid));
    }
    // now and then the calibration table is filled up to and beyond its allocation steps (8, 16): the same solved
    // session is solved and added again under many names, then the highest indices are deleted and some added back
    if (!c12 && !c10 && rng.chance(c16 ? 0.08 : 0.04)) {
	for (auto &S : sess) {
	    if (S.state != 3) continue;
	    int total = (int)rng.pick(std::vector<long>{8, 9, 16, 17, 12});
	    std::vector<long> names; for (long q = 0; q < 20; ++q) names.push_back(q);
	    for (size_t k = names.size(); k > 1; --k) std::swap(names[k - 1], names[(size_t)rng.below((long)k)]);
	    for (int q = 0; q < total; ++q) { plan.ops.push_back(g.mk("solve", {S.sid}, S.sid)); plan.ops.push_back(g.mk("addcal", {S.sid, names[(size_t)q]}, S.sid)); }
	    int dels = (int)rng.range(1, 3);
	    for (int q = 0; q < dels; ++q) { plan.ops.push_back(g.mk("delcal", {names[(size_t)(total - 1 - q)], -1}, nsess + 1)); if (rng.chance(0.5)) plan.ops.push_back(g.mk("query", {0}, nsess + 1)); }
	    if (rng.chance(0.6)) { plan.ops.push_back(g.mk("solve", {S.sid}, S.sid)); plan.ops.push_back(g.mk("addcal", {S.sid, names[(size_t)rng.below(20)]}, S.sid)); }
	    plan.ops.push_back(g.mk("apply", {names[0], (long)rng.below(1000000), (long)rng.below(3), 0, 0}, S.sid));
	    break;
	}
    }
    if (c07) {
	for (int q = (int)rng.below(4); q > 0; --q) prop_op(nsess + 1);
	if (rng.chance(0.6)) { long fp = rng.chance(0.3) ? 1000 : rng.range(1, 40), dp = rng.chance(0.4) ? 1000 : rng.range(4, 40); plan.ops.push_back(g.mk("vprec", {fp, dp}, nsess + 1)); }
	Op sv = g.mk("vsave", {rng.chance(0.15) ? 1 : 0}, nsess + 1); sv.s = {"final.vnacal"}; plan.ops.push_back(sv);
	Op ld = g.mk("vload", {0}, nsess + 1); ld.s = {"final.vnacal"}; plan.ops.push_back(ld);
	if (rng.chance(0.5)) { Op sv2 = g.mk("vsave", {0}, nsess + 1); std::string n2 = rng.chance(0.5) ? "again.vnacal" : "final.vnacal.v2"; sv2.s = {n2}; plan.ops.push_back(sv2); Op ld2 = g.mk("vload", {0}, nsess + 1); ld2.s = {n2}; plan.ops.push_back(ld2); }	// (the second name now and then extends the first)
    }
    plan.ops.push_back(g.mk("query", {0}, nsess + 1));
    return plan;
}
