// Hand-written valid files that reach loader code the library's own savers never exercise
// (Touchstone 2 Lower/Upper matrices, [Reference], 21_12 order, noise data, information blocks,
// the [Version] 1.0 hybrid, 4-port V1 wrapping, legacy NPD keywords, pre-release VNACAL 2.x/3.x,
// YAML anchors / aliases / tags / flow style).
#pragma once
struct CorpusText { const char *name; int kind; const char *text; };
static const CorpusText CORPUS_TEXT[] = {
{"t.ts", 0,
"! three ports, lower triangle\n[Version] 2.0\n# MHz S RI R 50\n[Number of Ports] 3\n[Number of Frequencies] 2\n"
"[Reference] 50 75\n 25\n[Matrix Format] Lower\n[Network Data]\n"
"1.0 0.1 0.0\n    0.2 0.1 0.3 0.0\n    0.4 0.1 0.5 0.2 0.6 0.0\n"
"2.0 0.1 0.1\n    0.2 0.2 0.3 0.1\n    0.4 0.2 0.5 0.3 0.6 0.1\n[End]\n"},
{"t.ts", 0,
"[Version] 2.0\n# GHz Y MA R 50\n[Number of Ports] 2\n[Two-Port Order] 21_12\n[Number of Frequencies] 2\n"
"[Number of Noise Frequencies] 2\n[Matrix Format] Upper\n[Begin Information]\n[End Information]\n[Network Data]\n"
"1.0 0.5 10 0.25 -20 0.75 30\n2.0 0.5 11 0.25 -21 0.75 31\n[Noise Data]\n1.0 1.1 0.3 45 0.2\n2.0 1.2 0.3 50 0.2\n[End]\n"},
{"t.s2p", 0,
"! two ports with noise data\n# kHz S DB R 75\n100 -1 10 -20 20 -21 30 -2 40 ! first\n200 -1.5 11 -20.5 21 -21.5 31 -2.5 41\n"
"! noise\n100 1.1 0.3 45 0.2\n200 1.2 0.3 50 0.2\n"},
{"t.s4p", 0,
"# MHz S RI R 50\n"
"1 0.11 0 0.12 0 0.13 0 0.14 0\n  0.21 0 0.22 0 0.23 0 0.24 0\n  0.31 0 0.32 0 0.33 0 0.34 0\n  0.41 0 0.42 0 0.43 0 0.44 0\n"
"2 0.11 1 0.12 1 0.13 1 0.14 1\n  0.21 1 0.22 1 0.23 1 0.24 1\n  0.31 1 0.32 1 0.33 1 0.34 1\n  0.41 1 0.42 1 0.43 1 0.44 1\n"},
{"t.s2p", 0,
"[Version] 1.0\n# GHz Z MA R 50\n[Number of Ports] 2\n[Two-Port Order] 12_21\n[Number of Frequencies] 2\n[Network Data]\n"
"1 1.5 10 0.25 20 0.35 30 2.5 40\n2 1.6 11 0.26 21 0.36 31 2.6 41\n[End]\n"},
{"t.s1p", 0, "# Hz Z RI R 50\n1e6 75 -3\n2e6 76 -2\n3e6 77 -1\n"},
{"t.s2p", 0, "# GHz H RI R 50\n1 10 1 0.02 0.001 30 3 0.004 0.0004\n2 11 1 0.03 0.001 31 3 0.005 0.0004\n"},
{"t.npd", 0,
"#NPD\n#:version 1.0\n#:rows 2\n#:columns 2\n#:frequencies 2\n#:parameters Sri\n#:z0 PER-FREQUENCY\n"
"1e6 50 0 75 1 0.1 0 0.2 0 0.3 0 0.4 0\n2e6 51 0 76 1 0.1 1 0.2 1 0.3 1 0.4 1\n"},
{"t.npd", 0,
"#NPD\n#:version 1.0\n#:ports 2\n#:frequencies 2\n#:parameters Zinma PRC  il\n#:z0 50 0 75 -1\n#:fprecision 4\n#:dprecision 3\n# comment\n\n"
"1e6 10 20 11 21 100 1e-12 110 2e-12 3 4\n2e6 12 22 13 23 101 1e-12 111 2e-12 3 4\n"},
{"t.vnacal", 1,
"#VNACAL 2.0\n%YAML 1.1\n---\nsets:\n- name: default\n  rows: 2\n  columns: 1\n  frequencies: 2\n  z0: +5.000000e+01 +0.000000e+00j\n"
"  data:\n  - f: 1.00000e+05\n    e:\n    - - - -2.499938e-05 -4.999875e-03j\n        - +9.999250e-01 -9.999500e-03j\n        - -2.499938e-05 -4.999875e-03j\n"
"    - - - +9.251859e-18 +0.000000e+00j\n        - +9.999250e-01 -9.999500e-03j\n        - +2.499938e-05 +4.999875e-03j\n"
"  - f: 1.58489e+05\n    e:\n    - - - -6.279322e-05 -7.923968e-03j\n        - +9.998116e-01 -1.584694e-02j\n        - -6.279322e-05 -7.923968e-03j\n"
"    - - - +9.251859e-18 +0.000000e+00j\n        - +9.998116e-01 -1.584694e-02j\n        - +6.279322e-05 +7.923968e-03j\n...\n"},
{"t.vnacal", 1,
"#VNACAL 2.1\n%YAML 1.1\n---\nproperties:\n  who: me\n  list: [1, 2, {a: b}]\nsets:\n- name: one\n  rows: 1\n  columns: 1\n  frequencies: 1\n  z0: 50 0j\n"
"  properties: {k: v}\n  data:\n  - f: 1e5\n    e:\n    - - - 0.1 0.2j\n        - 0.9 -0.1j\n        - 0.05 0j\n...\n"},
{"t.yaml", 2,
"%YAML 1.1\n---\nbase: &b {x: 1, y: [a, b, ~]}\ncopy: *b\ntagged: !!str 12\nfolded: >\n  some\n  text\nliteral: |\n  line1\n  line2\n"
"\"quoted key\": 'single ''q'''\nempty: {}\nnone: []\nnested:\n- - 1\n  - 2\n- k: {z: [ {q: 1} ]}\n...\n"},
{"t.yaml", 2, "- 1\n- [2, 3]\n- {a: ~}\n- &x text\n- *x\n"},
{"t.yaml", 2, "plain scalar\n"},
};
static const int N_CORPUS_TEXT = (int)(sizeof CORPUS_TEXT / sizeof CORPUS_TEXT[0]);
