// Shared between the doc engine and its generator: descriptor encoding in plan
// operations, rendering to descriptor text, digest of a real tree via public getters.
#pragma once
#include "core.h"
#include "docmodel.h"

static const int NROOTS = 3;

struct DescSpec {
    DPath path;
    bool leading_dot = false;
    int quoting = 0;	// 0 minimal own quoting, 1 vnaproperty_quote_key, 2 escape every byte
    int tail = 0;	// set: 0 "=value", 1 "#", 2 nothing, 3 junk; others: 0 nothing, 3 junk
    int deco = 0;	// 1, 2: white space between tokens; 3, 4: list subscripts written with one / two leading zeros (decimal all the same)
    bool as_format = false;
    std::string value, junk;
};

// op.i: 0 root, 1 suffix, 2 leading dot, 3 quoting, 4 tail, 5 deco, 6 as_format,
//       7 path length n, 8 source root, 9 task, 10 use-anchor
// op.s: n path elements ("k:<key>", "i:<n>", "+:<n>", "a:"), value, junk
static inline DescSpec desc_from_op(const Op &op)
{
    DescSpec d;
    d.path.suffix = (int)op.I(1);
    d.leading_dot = op.I(2) != 0;
    d.quoting = (int)op.I(3);
    d.tail = (int)op.I(4);
    d.deco = (int)op.I(5);
    d.as_format = op.I(6) != 0;
    size_t n = (size_t)op.I(7);
    if (n > op.s.size()) n = op.s.size();
    for (size_t k = 0; k < n; ++k) {
	const std::string &s = op.s[k];
	DElem e;
	if (s.size() >= 2 && s[1] == ':') {
	    switch (s[0]) {
	    case 'k': e.t = 0; e.key = s.substr(2); if (e.key.empty()) e.key = "x"; break;
	    case 'i': e.t = 1; e.n = atol(s.c_str() + 2); break;
	    case '+': e.t = 2; e.n = atol(s.c_str() + 2); break;
	    case 'a': e.t = 3; break;
	    default: e.t = 0; e.key = "x";
	    }
	} else { e.t = 0; e.key = s.empty() ? "x" : s; }
	if (e.n < 0) e.n = 0;
	if (e.n > 64 && e.n < 4294967296L) e.n = 64;	// (indices beyond the range of int are kept: no list reaches them)
	// keys cannot contain NUL; nothing else is excluded
	d.path.el.push_back(e);
    }
    d.value = op.S(n);
    d.junk = op.S(n + 1);
    if (d.tail == 3 && d.junk.empty()) d.junk = "!";
    if (d.path.el.empty() && d.path.suffix == 3) d.path.suffix = 0;
    return d;
}

static inline bool idchar1(unsigned char c) { return (c >= 'a' && c <= 'z') || (c >= 'A' && c <= 'Z') || c >= 0x80 || c == '_'; }
static inline bool idchar(unsigned char c) { return idchar1(c) || (c >= '0' && c <= '9') || c == ' ' || c == '-'; }

// own quoting of a key, written from the descriptor syntax in vnaproperty(3)
static inline std::string quote_min(const std::string &key)
{
    std::string r;
    size_t trail = key.size();
    while (trail > 0 && key[trail - 1] == ' ') --trail;
    for (size_t i = 0; i < key.size(); ++i) {
	unsigned char ch = (unsigned char)key[i];
	bool ok = i == 0 ? idchar1(ch) : idchar(ch);
	if (i >= trail) ok = false;
	if (!ok) r += '\\';
	r += (char)ch;
    }
    return r;
}
static inline std::string quote_all(const std::string &key)
{
    std::string r;
    for (char ch : key) { r += '\\'; r += ch; }
    return r;
}

static inline std::string render_desc(Ctx &c, const DescSpec &d)
{
    std::string r;
    bool can_space = true;	// white space is allowed here without changing the meaning
    bool any = false;
    auto SP = [&]() { if ((d.deco == 1 || d.deco == 2) && can_space) r += " "; };
    auto NUM = [&](long n) { return (d.deco >= 3 && n >= 0 ? std::string((size_t)d.deco - 2, '0') : std::string()) + std::to_string(n); };
    if (d.leading_dot) r += ".";
    for (size_t k = 0; k < d.path.el.size(); ++k) {
	const DElem &e = d.path.el[k];
	if (e.t == 0) {
	    if (any) { SP(); r += "."; can_space = true; }
	    SP();
	    std::string q;
	    if (d.quoting == 1) {
		char *p;
		{ LibCall lc(c); p = vnaproperty_quote_key(e.key.c_str()); lc.done(); }
		if (!p) { c.violate("model", "quote:rc", "quote_key returned NULL"); return r; }
		q = p;
		free(p);
	    } else if (d.quoting == 2) q = quote_all(e.key);
	    else q = quote_min(e.key);
	    r += q;
	    // trailing blanks after a key are trimmed by the library only when the key
	    // was written without escapes; decorate only then
	    can_space = q.find('\\') == std::string::npos;
	} else {
	    SP();
	    if (d.deco == 2 && (any || d.leading_dot == false) && any) r += ".";
	    can_space = true;
	    r += "[";
	    SP();
	    if (e.t == 1) r += NUM(e.n);
	    else if (e.t == 2) { r += NUM(e.n); SP(); r += "+"; }
	    else r += "+";
	    SP();
	    r += "]";
	}
	any = true;
    }
    if (d.path.suffix == 1) { SP(); can_space = true; r += "{"; SP(); r += "}"; }
    else if (d.path.suffix == 2) { SP(); can_space = true; r += "["; SP(); r += "]"; }
    else if (d.path.suffix == 3 && any) { SP(); can_space = true; r += "."; }
    if (r.empty()) r = ".";
    SP();
    return r;
}

// digest of a real tree using only type / count / keys / get / get_subtree
static inline void real_digest_rec(Ctx &c, const vnaproperty_t *node, std::string &out, int depth)
{
    if (c.violated) return;
    if (node == nullptr) { out += "~"; return; }
    if (depth > 40) { c.violate("model", "digest:depth", "tree deeper than 40 levels"); return; }
    int t;
    { LibCall lc(c); t = vnaproperty_type(node, "."); lc.done(); }
    if (t == 's') {
	const char *v;
	{ LibCall lc(c); v = vnaproperty_get(node, "."); lc.done(); }
	if (!v) { c.violate("model", "digest:get", "get(\".\") on a scalar node returned NULL"); return; }
	out += "s" + std::to_string(strlen(v)) + ":" + v;
    } else if (t == 'm') {
	const char **kv;
	int n;
	{ LibCall lc(c); kv = vnaproperty_keys(node, "{}"); lc.done(); }
	{ LibCall lc(c); n = vnaproperty_count(node, "{}"); lc.done(); }
	if (!kv) { c.violate("model", "digest:keys", "keys(\"{}\") on a map node returned NULL"); return; }
	int nk = 0;
	while (kv[nk]) ++nk;
	if (nk != n) { free((void *)kv); c.violate("model", "digest:count", strf("count of a map is %d but keys returned %d entries", n, nk)); return; }
	out += "{";
	for (int i = 0; i < nk && !c.violated; ++i) {
	    std::string key = kv[i];
	    out += "k" + std::to_string(key.size()) + ":" + key + "=";
	    std::string q = (depth + i) % 2 ? quote_min(key) : quote_all(key);
	    vnaproperty_t *sub;
	    int e;
	    { LibCall lc(c); sub = vnaproperty_get_subtree(node, "%s", q.c_str()); lc.done(); e = lc.saved_errno; }
	    if (!sub && e != 0) { c.violate("model", "digest:getsub", strf("key %s listed by keys() cannot be looked up (errno %s)", Json(key).str().c_str(), errno_name(e))); break; }
	    real_digest_rec(c, sub, out, depth + 1);
	    out += ",";
	}
	free((void *)kv);
	out += "}";
    } else if (t == 'l') {
	int n;
	{ LibCall lc(c); n = vnaproperty_count(node, "[]"); lc.done(); }
	if (n < 0) { c.violate("model", "digest:count", "count(\"[]\") on a list node failed"); return; }
	out += "[";
	for (int i = 0; i < n && !c.violated; ++i) {
	    vnaproperty_t *sub;
	    int e;
	    { LibCall lc(c); sub = vnaproperty_get_subtree(node, "[%d]", i); lc.done(); e = lc.saved_errno; }
	    if (!sub && e != 0) { c.violate("model", "digest:getsub", strf("list item %d of %d cannot be looked up (errno %s)", i, n, errno_name(e))); break; }
	    real_digest_rec(c, sub, out, depth + 1);
	    out += ",";
	}
	out += "]";
    } else {
	c.violate("model", "digest:type", strf("type(\".\") of a non-NULL node returned %d", t));
    }
}
static inline std::string real_digest(Ctx &c, const vnaproperty_t *node)
{
    std::string s;
    real_digest_rec(c, node, s, 0);
    return s;
}
