// array engine: vnadata_t objects against ArrayModel (C15), conversions (C05), files (C06).
#include "core.h"
#include "arraymodel.h"
#include "array_common.h"

void array_files_reset();

namespace {

static bool same_d(double a, double b) { return (a != a && b != b) || (a == b && std::signbit(a) == std::signbit(b)) || a == b; }
static bool same_z(zc a, zc b) { return same_d(a.real(), b.real()) && same_d(a.imag(), b.imag()); }
static bool close_z(zc a, zc b, double scale, double rel)
{
    bool fa = std::isfinite(a.real()) && std::isfinite(a.imag());
    bool fb = std::isfinite(b.real()) && std::isfinite(b.imag());
    if (!fa || !fb) return fa == fb;
    return std::abs(a - b) <= rel * (scale > 1 ? scale : 1);
}

struct ArrWorld {
    Ctx &c;
    vnadata_t *obj[NOBJ] = {nullptr, nullptr, nullptr};
    bool has_cb[NOBJ] = {true, true, true};
    ArrayModel m[NOBJ];
    bool exact_convert = false;
    bool check_cb = false;	// C11: callback discipline
    bool wellcond[NOBJ] = {false, false, false};	// data came from the well-conditioned generator
    explicit ArrWorld(Ctx &ctx) : c(ctx) {}
};

static bool failed_huge(cplx v) { return __real__ v == HUGE_VAL; }

// full comparison of one real object with its model through the public getters
static void compare_obj(ArrWorld &w, int oi, const Op &op, const char *what)
{
    Ctx &c = w.c;
    if (c.violated) return;
    const vnadata_t *v = w.obj[oi];
    const ArrayModel &m = w.m[oi];
    std::string site = op.k + ":state";
    auto bad = [&](const std::string &msg) {
	c.violate("model", site, strf("%s: object %d after %s: %s", what, oi, op.k.c_str(), msg.c_str()));
    };
    int type, R, C, F;
    { LibCall lc(c); type = vnadata_get_type(v); R = vnadata_get_rows(v); C = vnadata_get_columns(v); F = vnadata_get_frequencies(v); lc.done(); }
    if (type != m.type || R != m.R || C != m.C || F != m.F) {
	bad(strf("type/rows/columns/frequencies %d/%d/%d/%d, model %d/%d/%d/%d", type, R, C, F, m.type, m.R, m.C, m.F));
	return;
    }
    uint64_t dg = hash_mix(hash_mix(type, R * 100 + C), F);
    const double *fv;
    { LibCall lc(c); fv = vnadata_get_frequency_vector(v); lc.done(); }
    for (int f = 0; f < F; ++f) {
	double a, b = fv ? fv[f] : NAN;
	{ LibCall lc(c); a = vnadata_get_frequency(v, f); lc.done(); }
	if (!same_d(a, m.freq[f]) || !same_d(b, m.freq[f])) { bad(strf("frequency[%d] %s/%s, model %s", f, hexd(a).c_str(), hexd(b).c_str(), hexd(m.freq[f]).c_str())); return; }
	dg = hash_mix(dg, fnv1a(&a, sizeof a));
    }
    if (F > 0) {
	double lo, hi;
	{ LibCall lc(c); lo = vnadata_get_fmin(v); hi = vnadata_get_fmax(v); lc.done(); }
	if (!same_d(lo, m.freq[0]) || !same_d(hi, m.freq[F - 1])) { bad("fmin/fmax differ from first/last frequency"); return; }
    }
    for (int f = 0; f < F; ++f) {
	cplx *mp;
	{ LibCall lc(c); mp = vnadata_get_matrix(v, f); lc.done(); }
	if (!mp && R * C > 0) { bad(strf("get_matrix(%d) returned NULL", f)); return; }
	for (int r = 0; r < R; ++r) for (int k = 0; k < C; ++k) {
	    cplx a;
	    { LibCall lc(c); a = vnadata_get_cell(v, f, r, k); lc.done(); }
	    zc want = m.cell[f][(size_t)r * C + k];
	    zc viaptr = toz(mp[r * C + k]);
	    if (!same_z(toz(a), want) || !same_z(viaptr, want)) {
		bad(strf("cell[%d][%d][%d] = %s (matrix pointer: %s), model %s", f, r, k, hexz(toz(a)).c_str(), hexz(viaptr).c_str(), hexz(want).c_str()));
		return;
	    }
	    double re = want.real(), im = want.imag();
	    dg = hash_mix(dg, fnv1a(&re, sizeof re) ^ fnv1a(&im, sizeof im));
	}
    }
    bool pf;
    { LibCall lc(c); pf = vnadata_has_fz0(v); lc.done(); }
    if (pf != m.per_f) { bad(strf("has_fz0 %d, model %d", (int)pf, (int)m.per_f)); return; }
    int P = m.P();
    for (int f = 0; f < F; ++f) {
	const cplx *zp;
	{ LibCall lc(c); zp = vnadata_get_fz0_vector(v, f); lc.done(); }
	if (!zp && P > 0) { bad(strf("get_fz0_vector(%d) returned NULL", f)); return; }
	for (int p = 0; p < P; ++p) {
	    cplx a;
	    { LibCall lc(c); a = vnadata_get_fz0(v, f, p); lc.done(); }
	    zc want = m.z0_at(f)[p];
	    if (!same_z(toz(a), want) || !same_z(toz(zp[p]), want)) { bad(strf("z0[f=%d][port=%d] = %s, model %s", f, p, hexz(toz(a)).c_str(), hexz(want).c_str())); return; }
	    double re = want.real(), im = want.imag();
	    dg = hash_mix(dg, fnv1a(&re, sizeof re) ^ fnv1a(&im, sizeof im));
	}
    }
    if (!m.per_f) {
	const cplx *zp;
	{ LibCall lc(c); zp = vnadata_get_z0_vector(v); lc.done(); }
	if (!zp && P > 0) { bad("get_z0_vector returned NULL in ordinary-z0 mode"); return; }
	for (int p = 0; p < P; ++p) {
	    cplx a;
	    { LibCall lc(c); a = vnadata_get_z0(v, p); lc.done(); }
	    if (!same_z(toz(a), m.z0[p]) || !same_z(toz(zp[p]), m.z0[p])) { bad(strf("z0[port=%d] = %s, model %s", p, hexz(toz(a)).c_str(), hexz(m.z0[p]).c_str())); return; }
	    double re = m.z0[p].real(), im = m.z0[p].imag();
	    dg = hash_mix(dg, fnv1a(&re, sizeof re) ^ fnv1a(&im, sizeof im));
	}
    } else {
	const cplx *zp;
	int e;
	{ LibCall lc(c); zp = vnadata_get_z0_vector(v); lc.done(); e = lc.saved_errno; }
	if (zp) { bad("get_z0_vector succeeded although per-frequency impedances are in use"); return; }
	if (e != EINVAL) { bad(strf("get_z0_vector in per-frequency mode: errno %s, expected EINVAL", errno_name(e))); return; }
	if (P > 0) {
	    cplx a;
	    { LibCall lc(c); a = vnadata_get_z0(v, 0); lc.done(); }
	    if (!failed_huge(a)) { bad("get_z0 succeeded although per-frequency impedances are in use"); return; }
	}
    }
    int ft, fp, dp;
    const char *fmt;
    { LibCall lc(c); ft = vnadata_get_filetype(v); fp = vnadata_get_fprecision(v); dp = vnadata_get_dprecision(v); fmt = vnadata_get_format(v); lc.done(); }
    if (ft != m.filetype || fp != m.fprec || dp != m.dprec) { bad(strf("filetype/fprecision/dprecision %d/%d/%d, model %d/%d/%d", ft, fp, dp, m.filetype, m.fprec, m.dprec)); return; }
    if ((fmt != nullptr) != m.has_format || (fmt && m.format != fmt)) { bad(strf("format %s, model %s", fmt ? fmt : "(null)", m.has_format ? m.format.c_str() : "(null)")); return; }
    c.state(dg);
}

// take the model from the real object (where the checked property makes no claim)
static void resync_obj(ArrWorld &w, int oi)
{
    Ctx &c = w.c;
    const vnadata_t *v = w.obj[oi];
    ArrayModel &m = w.m[oi];
    LibCall lc(c);
    m.type = vnadata_get_type(v); m.R = vnadata_get_rows(v); m.C = vnadata_get_columns(v); m.F = vnadata_get_frequencies(v);
    m.freq.assign(m.F, 0);
    m.cell.assign(m.F, std::vector<zc>((size_t)m.R * m.C));
    for (int f = 0; f < m.F; ++f) {
	m.freq[f] = vnadata_get_frequency(v, f);
	for (int k = 0; k < m.R * m.C; ++k) m.cell[f][k] = toz(vnadata_get_cell(v, f, k / (m.C ? m.C : 1), k % (m.C ? m.C : 1)));
    }
    m.per_f = vnadata_has_fz0(v);
    int P = m.P();
    m.z0.clear(); m.fz0.clear();
    if (m.per_f) {
	m.fz0.assign(m.F, std::vector<zc>(P));
	for (int f = 0; f < m.F; ++f) for (int p = 0; p < P; ++p) m.fz0[f][p] = toz(vnadata_get_fz0(v, f, p));
    } else {
	m.z0.assign(P, zc(AM_Z0, 0));
	for (int p = 0; p < P; ++p) m.z0[p] = toz(vnadata_get_z0(v, p));
    }
    m.filetype = vnadata_get_filetype(v);
    m.fprec = vnadata_get_fprecision(v); m.dprec = vnadata_get_dprecision(v);
    const char *fmt = vnadata_get_format(v);
    m.has_format = fmt != nullptr; m.format = fmt ? fmt : "";
    lc.done();
    c.count("probe.resync");
}

// outcome bookkeeping for one library call
struct Outcome {
    bool failed = false;
    int err = 0;
    size_t ncb = 0;
    int cat = -1;
    bool fired = false;
};
static Outcome finish(LibCall &lc, bool failed)
{
    Outcome o;
    o.fired = g_sim.fired_vna > 0 || g_sim.fired_yaml > 0 || g_sim.fired_write_err || g_sim.fired_read_eio || g_sim.fired_read_eof || g_sim.fired_close_err || g_sim.fired_open;
    o.ncb = g_sim.callbacks.size();
    if (o.ncb) o.cat = g_sim.callbacks.back().category;
    lc.done();
    o.failed = failed;
    o.err = lc.saved_errno;
    return o;
}

// fault-armed call of the operation with one re-issue after a failure caused by the fault
#define ARR_CALL(FAILED_EXPR, BODY) \
    for (int arr_try_ = 0, arr_pend_err_ = 0, arr_pend_alloc_ = 0;; ++arr_try_) { \
	LibCall lc(c, arr_try_ == 0 ? &op : nullptr); \
	BODY; \
	bool arr_alloc_ = sim_alloc_fault_fired(); \
	o = finish(lc, (FAILED_EXPR)); \
	if (arr_try_ == 0 && o.fired && o.failed && !c.violated) { arr_pend_err_ = o.err; arr_pend_alloc_ = arr_alloc_; fault_failed(c, op.k, o.err, arr_alloc_); if (!c.no_retry) continue; } \
	if (arr_try_ == 1 && !o.failed) fault_recovered(c, op.k, arr_pend_err_, arr_pend_alloc_ != 0); \
	break; \
    }

// Check the outcome of a call that the model classifies as valid (must succeed unless a fault
// fired) or refused (must fail with EINVAL and change nothing).  Returns true when the call
// took effect.
static bool judge(ArrWorld &w, const Op &op, const Outcome &o, bool valid, const char *fn)
{
    Ctx &c = w.c;
    if (c.violated) return false;
    c.log(" %s -> %s errno=%s cb=%zu", fn, o.failed ? "FAIL" : "ok", o.failed ? errno_name(o.err) : "-", o.ncb);
    {
	int oi = (int)(op.I(0) % NOBJ + NOBJ) % NOBJ;
	// vnadata(3) only says "see vnaerr(3)": whether a failing call reports is not asserted, how it reports is
	c11_discipline(c, op.k, fn, o.failed, o.err, w.has_cb[oi], C11_MAY);
	if (c.violated) return false;
    }
    if (valid) {
	if (o.failed) {
	    if (o.fired) {
		c.count("probe.failed_by_fault");
		if (o.err != ENOMEM) c.violate("model", op.k + ":errno", strf("%s failed under an injected allocation failure with errno %s, expected ENOMEM", fn, errno_name(o.err)));
		return false;
	    }
	    c.violate("model", op.k + ":rc", strf("%s failed (errno %s) although the model accepts the call", fn, errno_name(o.err)));
	    return false;
	}
	return true;
    }
    if (!o.failed) { c.violate("model", op.k + ":rc", strf("%s succeeded although the arguments are invalid (index outside [0,n) or type/dimension rule)", fn)); return false; }
    if (o.err != EINVAL && !o.fired) { c.violate("model", op.k + ":errno", strf("%s refused with errno %s, expected EINVAL", fn, errno_name(o.err))); return false; }
    c.count("probe.refused");
    return false;
}

static zc opz(const Op &op, size_t k = 0) { return zc(op.D(2 * k), op.D(2 * k + 1)); }

static void run_op(ArrWorld &w, const Op &op)
{
    Ctx &c = w.c;
    int oi = (int)(op.I(0) % NOBJ + NOBJ) % NOBJ;
    vnadata_t *v = w.obj[oi];
    ArrayModel &m = w.m[oi];
    c.log("op %s obj=%d i=[%ld,%ld,%ld,%ld]", op.k.c_str(), oi, op.I(1), op.I(2), op.I(3), op.I(4));
    const std::string &k = op.k;
    if (k == "conv") { int oo = (int)((op.I(1) % NOBJ + NOBJ) % NOBJ); w.wellcond[oo] = w.wellcond[oi]; }
    else if (k == "fill") w.wellcond[oi] = op.I(2) == 0 && m.R == m.C && m.R > 0;
    else if (k != "chain" && k.compare(0, 3, "get") != 0 && k != "z0get" && k != "fz0get" && k != "fz0vget" && k != "fminmax" && k != "typename" && k != "getc" && k != "getm" && k != "getv" && k != "getf")
	w.wellcond[oi] = false;

    if (k == "init" || k == "resize") {
	int t = (int)op.I(1), R = (int)op.I(2), C = (int)op.I(3), F = (int)op.I(4);
	bool valid = R >= 0 && C >= 0 && F >= 0 && ArrayModel::dims_ok(t, R, C);
	int rc;
	Outcome o;
	ARR_CALL(rc != 0, rc = k == "init" ? vnadata_init(v, (vnadata_parameter_type_t)t, R, C, F) : vnadata_resize(v, (vnadata_parameter_type_t)t, R, C, F))
	bool took = judge(w, op, o, valid, k.c_str());
	if (c.violated) return;
	if (took) { if (k == "init") m.init(t, R, C, F); else m.resize(t, R, C, F); }
	else if (k == "init" || o.fired) {
	    // a failed init leaves a usable, but not necessarily unchanged, object (C11 wording)
	    resync_obj(w, oi);
	    if (o.fired && valid) {	// bounded liveness: the same call succeeds once the fault is gone
		{ LibCall lc(c); rc = k == "init" ? vnadata_init(v, (vnadata_parameter_type_t)t, R, C, F) : vnadata_resize(v, (vnadata_parameter_type_t)t, R, C, F); o = finish(lc, rc != 0); }
		if (rc != 0) { c.violate("model", k + ":retry", strf("%s still fails when re-issued without the fault (errno %s)", k.c_str(), errno_name(o.err))); return; }
		if (k == "init") m.init(t, R, C, F); else m.resize(t, R, C, F);
		c.count("probe.retry_after_fault_ok");
	    }
	}
	compare_obj(w, oi, op, valid ? k.c_str() : "refused call");
	return;
    }
    if (k == "settype") {
	int t = (int)op.I(1);
	bool valid = ArrayModel::dims_ok(t, m.R, m.C);
	Outcome o;
	ARR_CALL(rc != 0, int rc = vnadata_set_type(v, (vnadata_parameter_type_t)t))
	if (judge(w, op, o, valid, "set_type")) m.type = t;
	compare_obj(w, oi, op, valid ? "set_type" : "refused set_type");
	return;
    }
    if (k == "addf") {
	double f = op.D(0);
	bool valid = !(f < 0.0);
	Outcome o;
	ARR_CALL(rc != 0, int rc = vnadata_add_frequency(v, f))
	bool took = judge(w, op, o, valid, "add_frequency");
	if (c.violated) return;
	if (!took && o.fired && valid) {
	    { LibCall lc(c); int rc = vnadata_add_frequency(v, f); o = finish(lc, rc != 0); }
	    if (o.failed) { c.violate("model", "addf:retry", "add_frequency still fails when re-issued without the fault"); return; }
	    took = true;
	    c.count("probe.retry_after_fault_ok");
	}
	if (took) { m.resize(m.type, m.R, m.C, m.F + 1); m.freq[m.F - 1] = f; }
	compare_obj(w, oi, op, valid ? "add_frequency" : "refused add_frequency");
	return;
    }
    if (k == "setf" || k == "getf") {
	int fi = (int)op.I(1);
	bool valid = fi >= 0 && fi < m.F;
	if (k == "setf") {
	    Outcome o;
	    ARR_CALL(rc != 0, int rc = vnadata_set_frequency(v, fi, op.D(0)))
	    if (judge(w, op, o, valid, "set_frequency")) m.freq[fi] = op.D(0);
	} else {
	    double r; Outcome o;
	    ARR_CALL(r == HUGE_VAL && !valid, r = vnadata_get_frequency(v, fi))
	    if (valid) { if (!same_d(r, m.freq[fi])) c.violate("model", "getf:value", strf("get_frequency(%d) = %s, model %s", fi, hexd(r).c_str(), hexd(m.freq[fi]).c_str())); }
	    else { if (r != HUGE_VAL) c.violate("model", "getf:rc", strf("get_frequency(%d) with %d frequencies returned %s instead of HUGE_VAL", fi, m.F, hexd(r).c_str())); else judge(w, op, o, false, "get_frequency"); }
	}
	compare_obj(w, oi, op, valid ? k.c_str() : "refused call");
	return;
    }
    if (k == "setfv") {
	std::vector<double> fv((size_t)m.F + 1);	// exactly F entries are read; the extra one is never touched
	fv.resize((size_t)m.F);
	for (int f = 0; f < m.F; ++f) fv[f] = gen_freq(op.I(1), f, (int)op.I(2));
	Outcome o;
	ARR_CALL(rc != 0, int rc = vnadata_set_frequency_vector(v, fv.data()))
	if (judge(w, op, o, true, "set_frequency_vector")) m.freq = fv;
	compare_obj(w, oi, op, "set_frequency_vector");
	return;
    }
    if (k == "fminmax") {
	double lo, hi; Outcome o;
	ARR_CALL(lo == HUGE_VAL, lo = vnadata_get_fmin(v); hi = vnadata_get_fmax(v))
	if (m.F == 0) {
	    if (lo != HUGE_VAL || hi != HUGE_VAL) c.violate("model", "fminmax:rc", "get_fmin/get_fmax on an object without frequencies did not return HUGE_VAL");
	    else c.count("probe.refused");
	}
	compare_obj(w, oi, op, "get_fmin/get_fmax");
	return;
    }
    if (k == "setc" || k == "getc") {
	int fi = (int)op.I(1), r = (int)op.I(2), cc = (int)op.I(3);
	bool valid = fi >= 0 && fi < m.F && r >= 0 && r < m.R && cc >= 0 && cc < m.C;
	if (k == "setc") {
	    Outcome o;
	    ARR_CALL(rc != 0, int rc = vnadata_set_cell(v, fi, r, cc, toc(opz(op))))
	    if (judge(w, op, o, valid, "set_cell")) m.cell[fi][(size_t)r * m.C + cc] = opz(op);
	} else {
	    cplx a; Outcome o;
	    ARR_CALL(!valid && failed_huge(a), a = vnadata_get_cell(v, fi, r, cc))
	    if (valid) { zc want = m.cell[fi][(size_t)r * m.C + cc]; if (!same_z(toz(a), want)) c.violate("model", "getc:value", strf("get_cell(%d,%d,%d) = %s, model %s", fi, r, cc, hexz(toz(a)).c_str(), hexz(want).c_str())); }
	    else if (!failed_huge(a)) c.violate("model", "getc:rc", strf("get_cell(%d,%d,%d) outside %dx%dx%d returned a value instead of HUGE_VAL", fi, r, cc, m.F, m.R, m.C));
	    else judge(w, op, o, false, "get_cell");
	}
	compare_obj(w, oi, op, valid ? k.c_str() : "refused call");
	return;
    }
    if (k == "setm" || k == "getm") {
	int fi = (int)op.I(1);
	bool valid = fi >= 0 && fi < m.F;
	size_t n = (size_t)m.R * m.C;
	if (k == "setm") {
	    std::vector<cplx> buf(n + 1);
	    buf.resize(n);	// caller buffer of exactly rows*columns cells
	    for (size_t q = 0; q < n; ++q) buf[q] = toc(gen_val(op.I(2), (long)q, (int)op.I(3)));
	    Outcome o;
	    ARR_CALL(rc != 0, int rc = vnadata_set_matrix(v, fi, buf.data()))
	    if (judge(w, op, o, valid, "set_matrix")) for (size_t q = 0; q < n; ++q) m.cell[fi][q] = toz(buf[q]);
	} else {
	    cplx *p; Outcome o;
	    ARR_CALL(p == nullptr, p = vnadata_get_matrix(v, fi))
	    if (valid) {
		if (!p && n > 0) c.violate("model", "getm:rc", "get_matrix returned NULL for a valid frequency index");
		else for (size_t q = 0; q < n; ++q) if (!same_z(toz(p[q]), m.cell[fi][q])) { c.violate("model", "getm:value", strf("get_matrix(%d)[%zu] = %s, model %s", fi, q, hexz(toz(p[q])).c_str(), hexz(m.cell[fi][q]).c_str())); break; }
	    } else if (p) c.violate("model", "getm:rc", strf("get_matrix(%d) with %d frequencies returned a pointer", fi, m.F));
	    else judge(w, op, o, false, "get_matrix");
	}
	compare_obj(w, oi, op, valid ? k.c_str() : "refused call");
	return;
    }
    if (k == "setv" || k == "getv") {
	int r = (int)op.I(1), cc = (int)op.I(2);
	bool valid = r >= 0 && r < m.R && cc >= 0 && cc < m.C;
	std::vector<cplx> buf((size_t)m.F + 1);
	buf.resize((size_t)m.F);
	if (k == "setv") {
	    for (int f = 0; f < m.F; ++f) buf[f] = toc(gen_val(op.I(3), f, (int)op.I(4)));
	    Outcome o;
	    ARR_CALL(rc != 0, int rc = vnadata_set_from_vector(v, r, cc, buf.data()))
	    if (judge(w, op, o, valid, "set_from_vector")) for (int f = 0; f < m.F; ++f) m.cell[f][(size_t)r * m.C + cc] = toz(buf[f]);
	} else {
	    Outcome o;
	    ARR_CALL(rc != 0, int rc = vnadata_get_to_vector(v, r, cc, buf.data()))
	    if (judge(w, op, o, valid, "get_to_vector"))
		for (int f = 0; f < m.F; ++f) if (!same_z(toz(buf[f]), m.cell[f][(size_t)r * m.C + cc])) { c.violate("model", "getv:value", strf("get_to_vector(%d,%d)[%d] differs from the model", r, cc, f)); break; }
	}
	compare_obj(w, oi, op, valid ? k.c_str() : "refused call");
	return;
    }
    if (k == "z0set" || k == "z0get") {
	int p = (int)op.I(1);
	int P = m.P();
	bool valid = p >= 0 && p < P;
	if (k == "z0set") {
	    Outcome o;
	    ARR_CALL(rc != 0, int rc = vnadata_set_z0(v, p, toc(opz(op))))
	    bool took = judge(w, op, o, valid, "set_z0");
	    if (c.violated) return;
	    if (!took && o.fired && valid) {
		resync_obj(w, oi);
		{ LibCall lc(c); int rc = vnadata_set_z0(v, p, toc(opz(op))); o = finish(lc, rc != 0); }
		if (o.failed) { c.violate("model", "z0set:retry", "set_z0 still fails when re-issued without the fault"); return; }
		took = true; c.count("probe.retry_after_fault_ok");
	    }
	    if (took) { if (m.per_f) c.count("probe.perf_to_simple"); m.to_simple(); m.z0[p] = opz(op); }
	} else {
	    bool ok = valid && !m.per_f;
	    cplx a; Outcome o;
	    ARR_CALL(failed_huge(a), a = vnadata_get_z0(v, p))
	    if (ok) { if (!same_z(toz(a), m.z0[p])) c.violate("model", "z0get:value", strf("get_z0(%d) = %s, model %s", p, hexz(toz(a)).c_str(), hexz(m.z0[p]).c_str())); }
	    else if (!failed_huge(a)) c.violate("model", "z0get:rc", strf("get_z0(%d) with %d ports%s returned a value instead of HUGE_VAL", p, P, m.per_f ? " in per-frequency mode" : ""));
	    else judge(w, op, o, false, "get_z0");
	}
	compare_obj(w, oi, op, valid ? k.c_str() : "refused call");
	return;
    }
    if (k == "z0all") {
	Outcome o;
	ARR_CALL(rc != 0, int rc = vnadata_set_all_z0(v, toc(opz(op))))
	bool took = judge(w, op, o, true, "set_all_z0");
	if (c.violated) return;
	if (!took && o.fired) {
	    resync_obj(w, oi);
	    { LibCall lc(c); int rc = vnadata_set_all_z0(v, toc(opz(op))); o = finish(lc, rc != 0); }
	    if (o.failed) { c.violate("model", "z0all:retry", "set_all_z0 still fails when re-issued without the fault"); return; }
	    took = true; c.count("probe.retry_after_fault_ok");
	}
	if (took) { m.to_simple(); for (auto &z : m.z0) z = opz(op); }
	compare_obj(w, oi, op, "set_all_z0");
	return;
    }
    if (k == "z0vset") {
	int P = m.P();
	std::vector<cplx> buf((size_t)P + 1);
	buf.resize((size_t)P);
	for (int p = 0; p < P; ++p) buf[p] = toc(gen_z0(op.I(1), p, (int)op.I(2)));
	Outcome o;
	ARR_CALL(rc != 0, int rc = vnadata_set_z0_vector(v, buf.data()))
	bool took = judge(w, op, o, true, "set_z0_vector");
	if (c.violated) return;
	if (!took && o.fired) {
	    resync_obj(w, oi);
	    { LibCall lc(c); int rc = vnadata_set_z0_vector(v, buf.data()); o = finish(lc, rc != 0); }
	    if (o.failed) { c.violate("model", "z0vset:retry", "set_z0_vector still fails when re-issued without the fault"); return; }
	    took = true; c.count("probe.retry_after_fault_ok");
	}
	if (took) { m.to_simple(); for (int p = 0; p < P; ++p) m.z0[p] = toz(buf[p]); }
	compare_obj(w, oi, op, "set_z0_vector");
	return;
    }
    if (k == "fz0set" || k == "fz0get") {
	int fi = (int)op.I(1), p = (int)op.I(2);
	int P = m.P();
	bool valid = fi >= 0 && fi < m.F && p >= 0 && p < P;
	if (k == "fz0set") {
	    Outcome o;
	    ARR_CALL(rc != 0, int rc = vnadata_set_fz0(v, fi, p, toc(opz(op))))
	    bool took = judge(w, op, o, valid, "set_fz0");
	    if (c.violated) return;
	    if (!took && o.fired && valid) {
		resync_obj(w, oi);
		{ LibCall lc(c); int rc = vnadata_set_fz0(v, fi, p, toc(opz(op))); o = finish(lc, rc != 0); }
		if (o.failed) { c.violate("model", "fz0set:retry", "set_fz0 still fails when re-issued without the fault"); return; }
		took = true; c.count("probe.retry_after_fault_ok");
	    }
	    if (took) { if (!m.per_f) c.count("probe.simple_to_perf"); m.to_perf(); m.fz0[fi][p] = opz(op); }
	} else {
	    cplx a; Outcome o;
	    ARR_CALL(failed_huge(a), a = vnadata_get_fz0(v, fi, p))
	    bool fi_bad_only = !(fi >= 0 && fi < m.F) && p >= 0 && p < P && !m.per_f;
	    if (valid) { zc want = m.z0_at(fi)[p]; if (!same_z(toz(a), want)) c.violate("model", "fz0get:value", strf("get_fz0(%d,%d) = %s, model %s", fi, p, hexz(toz(a)).c_str(), hexz(want).c_str())); }
	    else if (fi_bad_only) {
		// manual: in ordinary mode the frequency index is not used; either answer is accepted
		if (!failed_huge(a) && !same_z(toz(a), m.z0[p])) c.violate("model", "fz0get:value", "get_fz0 in ordinary mode returned neither failure nor the port's impedance");
	    } else if (!failed_huge(a)) c.violate("model", "fz0get:rc", strf("get_fz0(%d,%d) with %d frequencies and %d ports returned a value instead of HUGE_VAL", fi, p, m.F, P));
	    else judge(w, op, o, false, "get_fz0");
	}
	compare_obj(w, oi, op, valid ? k.c_str() : "refused call");
	return;
    }
    if (k == "fz0vset" || k == "fz0vget") {
	int fi = (int)op.I(1);
	int P = m.P();
	bool valid = fi >= 0 && fi < m.F;
	if (k == "fz0vset") {
	    std::vector<cplx> buf((size_t)P + 1);
	    buf.resize((size_t)P);
	    for (int p = 0; p < P; ++p) buf[p] = toc(gen_z0(op.I(2), p, (int)op.I(3)));
	    Outcome o;
	    ARR_CALL(rc != 0, int rc = vnadata_set_fz0_vector(v, fi, buf.data()))
	    bool took = judge(w, op, o, valid, "set_fz0_vector");
	    if (c.violated) return;
	    if (!took && o.fired && valid) {
		resync_obj(w, oi);
		{ LibCall lc(c); int rc = vnadata_set_fz0_vector(v, fi, buf.data()); o = finish(lc, rc != 0); }
		if (o.failed) { c.violate("model", "fz0vset:retry", "set_fz0_vector still fails when re-issued without the fault"); return; }
		took = true; c.count("probe.retry_after_fault_ok");
	    }
	    if (took) { if (!m.per_f) c.count("probe.simple_to_perf"); m.to_perf(); for (int p = 0; p < P; ++p) m.fz0[fi][p] = toz(buf[p]); }
	} else {
	    const cplx *zp; Outcome o;
	    ARR_CALL(zp == nullptr, zp = vnadata_get_fz0_vector(v, fi))
	    if (valid) {
		if (!zp && P > 0) c.violate("model", "fz0vget:rc", "get_fz0_vector returned NULL for a valid frequency index");
		else for (int p = 0; p < P; ++p) if (!same_z(toz(zp[p]), m.z0_at(fi)[p])) { c.violate("model", "fz0vget:value", strf("get_fz0_vector(%d)[%d] differs from the model", fi, p)); break; }
	    } else if (m.per_f) {
		if (zp) c.violate("model", "fz0vget:rc", strf("get_fz0_vector(%d) with %d frequencies returned a pointer", fi, m.F));
		else judge(w, op, o, false, "get_fz0_vector");
	    }
	}
	compare_obj(w, oi, op, valid ? k.c_str() : "refused call");
	return;
    }
    if (k == "fill") {
	// harness helper: well-conditioned network data of the object's type + ascending frequencies
	int cls = (int)op.I(2);
	for (int f = 0; f < m.F && !c.violated; ++f) {
	    std::vector<zc> mat = gen_network(m.type, m.R, m.C, op.I(1), f, cls, m.z0_at(f));
	    std::vector<cplx> buf(mat.size());
	    for (size_t q = 0; q < mat.size(); ++q) buf[q] = toc(mat[q]);
	    { LibCall lc(c); vnadata_set_matrix(v, f, buf.data()); vnadata_set_frequency(v, f, gen_freq(op.I(1), f, 0)); lc.done(); }
	    m.cell[f] = mat;
	    m.freq[f] = gen_freq(op.I(1), f, 0);
	}
	compare_obj(w, oi, op, "fill");
	return;
    }
    if (k == "conv") {
	int oo = (int)((op.I(1) % NOBJ + NOBJ) % NOBJ), to = (int)op.I(2);
	ArrayModel expect_out = w.m[oo];
	const ConvEntry *e;
	bool valid = m.conv_valid(to, &e);
	ArrayModel res = w.m[oo];
	if (valid) {
	    if (oo == oi) { res = m; res.convert(res, to); }
	    else m.convert(res, to);
	}
	Outcome o;
	ARR_CALL(rc != 0, int rc = vnadata_convert(v, w.obj[oo], (vnadata_parameter_type_t)to))
	c.count(strf("conv.%d.%d", m.type, to));
	bool took = judge(w, op, o, valid, "convert");
	if (c.violated) return;
	if (took) {
	    if (e && (e->kind == 2 || e->kind == 5) && oo == oi) c.count("probe.inplace_to_zin");
	    if (oo == oi) c.count("probe.inplace_convert"); else c.count("probe.outofplace_convert");
	    if (m.per_f) c.count("probe.convert_perf_z0");
	    // data cells: equal to the documented function's result (tolerance: a different but
	    // equivalent vnaconv routine may be used); everything else exact
	    ArrayModel &mo = w.m[oo];
	    mo = res;
	    const vnadata_t *vo = w.obj[oo];
	    int rF, rR, rC;
	    { LibCall lc(c); rF = vnadata_get_frequencies(vo); rR = vnadata_get_rows(vo); rC = vnadata_get_columns(vo); lc.done(); }
	    if (rF == mo.F && rR == mo.R && rC == mo.C) {
		for (int f = 0; f < mo.F && !c.violated; ++f) {
		    double scale = 0;
		    for (auto &z : mo.cell[f]) if (std::isfinite(std::abs(z))) scale = std::max(scale, std::abs(z));
		    for (int q = 0; q < mo.R * mo.C; ++q) {
			cplx a;
			{ LibCall lc(c); a = vnadata_get_cell(vo, f, q / mo.C, q % mo.C); lc.done(); }
			zc want = mo.cell[f][q];
			bool ok = w.exact_convert ? same_z(toz(a), want) : (same_z(toz(a), want) || close_z(toz(a), want, scale, 1e-9));
			if (!ok) { c.violate("model", "conv:value", strf("convert %d->%d (%s): cell[%d][%d] = %s, %s gives %s", m.type, to, oo == oi ? "in place" : "out of place", f, q, hexz(toz(a)).c_str(), e ? e->name : "copy", hexz(want).c_str())); break; }
			mo.cell[f][q] = toz(a);	// adopt the library's rounding for the exact comparison below
		    }
		}
	    }
	} else if (o.fired && valid) {
	    // failed inside the destination set-up: destination usable, content not asserted (C11)
	    resync_obj(w, oo);
	    c.count("probe.convert_failed_by_fault");
	} else {
	    w.m[oo] = expect_out;	// rejected: output must be untouched
	    c.count("probe.convert_refused");
	}
	compare_obj(w, oo, op, took ? "convert (destination)" : "refused convert (destination must be unmodified)");
	if (oo != oi) compare_obj(w, oi, op, "convert (source)");
	return;
    }
    if (k == "chain") {
	// A -> B -> C equals A -> C (well-conditioned data only)
	int tb = (int)op.I(1), tc = (int)op.I(2);
	const ConvEntry *e;
	ArrayModel mb, mc, md;
	if (!w.wellcond[oi]) { c.count("probe.chain_skipped_not_wellconditioned"); return; }
	if (!m.conv_valid(tb, &e) || m.convert(mb, tb) != 0) return;
	if (!mb.conv_valid(tc, &e) || mb.convert(mc, tc) != 0) return;
	if (!m.conv_valid(tc, &e) || m.convert(md, tc) != 0) return;
	vnadata_t *t1, *t2, *t3;
	int r1, r2, r3;
	{ LibCall lc(c); t1 = vnadata_alloc(sim_error_fn, nullptr); t2 = vnadata_alloc(sim_error_fn, nullptr); t3 = vnadata_alloc(sim_error_fn, nullptr); lc.done(); }
	{ LibCall lc(c); r1 = vnadata_convert(v, t1, (vnadata_parameter_type_t)tb); r2 = r1 == 0 ? vnadata_convert(t1, t2, (vnadata_parameter_type_t)tc) : -1; r3 = vnadata_convert(v, t3, (vnadata_parameter_type_t)tc); lc.done(); }
	if (!c.violated) {
	    if (r1 || r2 || r3) c.violate("model", "chain:rc", strf("conversion chain %d->%d->%d failed (%d,%d,%d)", m.type, tb, tc, r1, r2, r3));
	    else {
		int F = m.F;
		int n2 = vnadata_get_rows(t2) * vnadata_get_columns(t2), n3 = vnadata_get_rows(t3) * vnadata_get_columns(t3);
		if (n2 != n3 || vnadata_get_type(t2) != vnadata_get_type(t3)) c.violate("model", "chain:shape", "A->B->C and A->C give different shapes or types");
		else for (int f = 0; f < F && !c.violated; ++f) {
		    const cplx *p2 = vnadata_get_matrix(t2, f), *p3 = vnadata_get_matrix(t3, f);
		    double scale = 0; bool fin = true;
		    for (int q = 0; q < n2; ++q) { double a = std::abs(toz(p3[q])); if (!std::isfinite(a) || !std::isfinite(std::abs(toz(p2[q])))) fin = false; else scale = std::max(scale, a); }
		    // intermediate magnitudes decide the conditioning
		    double mid = 0;
		    for (auto &z : mb.cell[f]) { double a = std::abs(z); if (!std::isfinite(a)) fin = false; else mid = std::max(mid, a); }
		    if (!fin || scale > 1e6 || mid > 1e6 || scale < 1e-6) { c.count("probe.chain_skipped_illconditioned"); continue; }
		    for (int q = 0; q < n2; ++q) if (std::abs(toz(p2[q]) - toz(p3[q])) > 1e-7 * std::max(1.0, scale) * std::max(1.0, mid)) {
			c.violate("model", "chain:value", strf("%d->%d->%d differs from %d->%d at f=%d cell %d: %s vs %s", m.type, tb, tc, m.type, tc, f, q, hexz(toz(p2[q])).c_str(), hexz(toz(p3[q])).c_str()));
			break;
		    }
		    c.count("probe.chain_compared");
		}
	    }
	}
	{ LibCall lc(c); vnadata_free(t1); vnadata_free(t2); vnadata_free(t3); lc.done(); }
	return;
    }
    if (k == "realloc") {
	{ LibCall lc(c); vnadata_free(v); lc.done(); }
	bool cb = op.I(1) != 0;
	Outcome o;
	vnadata_t *nv;
	ARR_CALL(nv == nullptr, nv = vnadata_alloc(cb ? sim_error_fn : nullptr, nullptr))
	if (!nv) {
	    if (!o.fired) { c.violate("model", "realloc:rc", "vnadata_alloc failed without a fault"); return; }
	    if (o.err != ENOMEM) { c.violate("model", "realloc:errno", "vnadata_alloc failed with errno other than ENOMEM"); return; }
	    { LibCall lc(c); nv = vnadata_alloc(cb ? sim_error_fn : nullptr, nullptr); lc.done(); }
	    if (!nv) { c.violate("model", "realloc:retry", "vnadata_alloc still fails without the fault"); return; }
	}
	w.obj[oi] = nv;
	w.has_cb[oi] = cb;
	m = ArrayModel();
	compare_obj(w, oi, op, "alloc");
	return;
    }
    if (k == "typename") {
	int t = (int)op.I(1);
	const char *n;
	{ LibCall lc(c, &op); n = vnadata_get_type_name((vnadata_parameter_type_t)t); lc.done(); }
	static const char *names[] = {"undefined", "S", "T", "U", "Z", "Y", "H", "G", "A", "B", "Zin"};
	if (t >= 0 && t < VPT_NTYPES) { if (!n || (t > 0 && strcasecmp(n, names[t]) != 0)) c.violate("model", "typename:value", strf("type name of %d is %s", t, n ? n : "(null)")); }
	else if (n) c.violate("model", "typename:rc", strf("type name of invalid type %d is %s, expected NULL", t, n));
	return;
    }
    c.cb_installed = w.has_cb[oi];
    c.restart_cb = -1;
    bool handled = array_file_op(w.c, op, oi, w.obj, w.m, [&](int o2, const char *what) { compare_obj(w, o2, op, what); }, [&](int o2) { resync_obj(w, o2); });
    if (c.restart_cb >= 0) for (int q = 0; q < NOBJ; ++q) w.has_cb[q] = c.restart_cb != 0;
    if (handled) return;
    c.log("unknown op %s ignored", k.c_str());
}

static void array_run(Ctx &c, const Plan &plan)
{
    ArrWorld w(c);
    array_files_reset();
    w.exact_convert = plan.cfg.geti("exact_convert", 0) != 0;
    for (int k = 0; k < NOBJ; ++k) {
	bool cb = plan.cfg.geti("callback", 1) != 0;
	LibCall lc(c);
	w.obj[k] = vnadata_alloc(cb ? sim_error_fn : nullptr, nullptr);
	w.has_cb[k] = cb;
	lc.done();
    }
    for (size_t k = 0; k < plan.ops.size() && !c.violated; ++k) {
	c.cur_op = (long)k;
	const Op &op = plan.ops[k];
	c.interleave = hash_mix(c.interleave, (uint64_t)op.I(9) + 1);
	run_op(w, op);
    }
    c.cur_op = (long)plan.ops.size();
    if (plan.check.compare(0, 3, "C06") != 0) c.nontrivial = c.states.size() >= 3;
    if (!c.violated) {
	for (int k = 0; k < NOBJ; ++k) { LibCall lc(c); vnadata_free(w.obj[k]); lc.done(); }
	check_ledger_empty(c, "end of run (all vnadata objects freed)");
    }
}

} // namespace

Plan array_gen(const std::string &check, const std::string &tier, uint64_t seed, long run);
static EngineReg reg_array(Engine{"array", array_gen, array_run});
