// VnaWorld: a physical error-network stub of a vector network analyzer.  For every
// frequency the instrument is a linear 2P-port error box around the device under test:
//     M = Ed + Er * S * (I - Em * S)^-1 * Et
// (directivity/leakage Ed, reflection tracking Er, source match Em, transmission tracking Et).
// 8-term classes: all four diagonal; 10-term: Ed full (leakage), others diagonal; 16-term: all
// four full; 12/14-term: one independent diagonal set per driven column plus a full Ed column.
// Written without any T/U parameter algebra: it shares nothing with libvna's solver.
#pragma once
#include "core.h"

struct Mat {
    int r = 0, c = 0;
    std::vector<zc> v;
    Mat() {}
    Mat(int rr, int cc) : r(rr), c(cc), v((size_t)rr * cc, zc(0, 0)) {}
    zc &operator()(int i, int j) { return v[(size_t)i * c + j]; }
    const zc &operator()(int i, int j) const { return v[(size_t)i * c + j]; }
    static Mat eye(int n) { Mat m(n, n); for (int i = 0; i < n; ++i) m(i, i) = 1; return m; }
};
static inline Mat operator*(const Mat &a, const Mat &b)
{
    Mat o(a.r, b.c);
    for (int i = 0; i < a.r; ++i) for (int k = 0; k < a.c; ++k) { zc x = a(i, k); if (x == zc(0, 0)) continue; for (int j = 0; j < b.c; ++j) o(i, j) += x * b(k, j); }
    return o;
}
static inline Mat operator+(const Mat &a, const Mat &b) { Mat o = a; for (size_t i = 0; i < o.v.size(); ++i) o.v[i] += b.v[i]; return o; }
static inline Mat operator-(const Mat &a, const Mat &b) { Mat o = a; for (size_t i = 0; i < o.v.size(); ++i) o.v[i] -= b.v[i]; return o; }
static inline bool mat_inv(const Mat &a, Mat &out)
{
    int n = a.r;
    Mat w(n, 2 * n);
    for (int i = 0; i < n; ++i) { for (int j = 0; j < n; ++j) w(i, j) = a(i, j); w(i, n + i) = 1; }
    for (int col = 0; col < n; ++col) {
	int piv = col;
	for (int i = col + 1; i < n; ++i) if (std::abs(w(i, col)) > std::abs(w(piv, col))) piv = i;
	if (std::abs(w(piv, col)) < 1e-300) return false;
	if (piv != col) for (int j = 0; j < 2 * n; ++j) std::swap(w(piv, j), w(col, j));
	zc d = w(col, col);
	for (int j = 0; j < 2 * n; ++j) w(col, j) /= d;
	for (int i = 0; i < n; ++i) if (i != col) { zc f = w(i, col); if (f != zc(0, 0)) for (int j = 0; j < 2 * n; ++j) w(i, j) -= f * w(col, j); }
    }
    out = Mat(n, n);
    for (int i = 0; i < n; ++i) for (int j = 0; j < n; ++j) out(i, j) = w(i, n + j);
    return true;
}

// error-model class a calibration type can represent
enum WorldClass { W8 = 0, W10 = 1, W16 = 2, W12 = 3 };
static inline WorldClass world_class_of(int type)
{
    switch (type) {
    case VNACAL_T8: case VNACAL_U8: return W8;
    case VNACAL_TE10: case VNACAL_UE10: return W10;
    case VNACAL_T16: case VNACAL_U16: return W16;
    default: return W12;
    }
}

struct VnaWorld {
    int P = 1;
    WorldClass cls = W8;
    long seed = 1;
    double fref = 1e9;	// frequencies are normalised by this for the smooth dependence

    static double u(long seed, long a, long b, long c)
    {
	uint64_t x = (uint64_t)seed * 0x9e3779b97f4a7c15ULL ^ ((uint64_t)a * 0xbf58476d1ce4e5b9ULL + (uint64_t)b * 0x94d049bb133111ebULL + (uint64_t)c * 0x2545f4914f6cdd1dULL);
	uint64_t z = Rng::splitmix(x);
	return (double)(z >> 11) * (1.0 / 9007199254740992.0);
    }
    // smooth (low-order polynomial) frequency dependence of one error term
    zc term(int which, int col, int i, int j, double base_re, double spread, double f) const
    {
	double x = f / fref;
	long k = which * 1000 + col * 100 + i * 10 + j;
	zc e0(base_re + spread * (2 * u(seed, k, 1, 0) - 1), spread * (2 * u(seed, k, 2, 0) - 1));
	zc e1(0.05 * spread * (2 * u(seed, k, 3, 0) - 1), 0.05 * spread * (2 * u(seed, k, 4, 0) - 1));
	zc e2(0.01 * spread * (2 * u(seed, k, 5, 0) - 1), 0.01 * spread * (2 * u(seed, k, 6, 0) - 1));
	return e0 + e1 * x + e2 * x * x;
    }
    // the four blocks as seen when column `col` drives (col only matters for the 12-term class)
    void blocks(double f, int col, Mat &Ed, Mat &Er, Mat &Em, Mat &Et) const
    {
	int c12 = cls == W12 ? col + 1 : 0;
	// one 10- / 12-term instrument in seven has no leakage at all: the isolation terms the library finds are exactly zero
	bool quiet = (cls == W10 || cls == W12) && u(seed, 4242, 0, 0) < 0.15;
	Ed = Mat(P, P); Er = Mat(P, P); Em = Mat(P, P); Et = Mat(P, P);
	for (int i = 0; i < P; ++i) for (int j = 0; j < P; ++j) {
	    bool diag = i == j;
	    // directivity / leakage
	    if (diag) Ed(i, j) = term(0, cls == W12 ? 0 : 0, i, j, 0.0, 0.15, f);
	    else if (cls != W8 && !quiet) Ed(i, j) = term(0, 0, i, j, 0.0, 0.04, f);
	    if (diag) { Er(i, j) = term(1, c12, i, j, 1.0, 0.2, f); Em(i, j) = term(2, c12, i, j, 0.0, 0.15, f); Et(i, j) = term(3, c12, i, j, 1.0, 0.2, f); }
	    else if (cls == W16) { Er(i, j) = term(1, 0, i, j, 0.0, 0.04, f); Em(i, j) = term(2, 0, i, j, 0.0, 0.04, f); Et(i, j) = term(3, 0, i, j, 0.0, 0.04, f); }
	}
    }
    // what the instrument measures for a device with scattering matrix S (P x P)
    Mat measure(const Mat &S, double f) const
    {
	Mat M(P, P);
	int ncol = cls == W12 ? P : 1;
	for (int col = 0; col < ncol; ++col) {
	    Mat Ed, Er, Em, Et, inv;
	    blocks(f, col, Ed, Er, Em, Et);
	    Mat A = Mat::eye(P) - Em * S;
	    if (!mat_inv(A, inv)) { M.v.assign(M.v.size(), zc(NAN, NAN)); return M; }
	    Mat full = Ed + Er * S * inv * Et;
	    if (cls == W12) for (int i = 0; i < P; ++i) M(i, col) = full(i, col);
	    else M = full;
	}
	return M;
    }
};

// standard and device generators ------------------------------------------------------
static inline zc std_gamma_predefined(int h) { return h == VNACAL_MATCH ? zc(0, 0) : h == VNACAL_OPEN ? zc(1, 0) : zc(-1, 0); }

// a well-conditioned random device: |Sii| <= 0.5, |Sij| in [0.2, 0.6]/(P-1)
static inline Mat random_dut(int P, long seed, double f, double fref)
{
    Mat S(P, P);
    double x = f / fref;
    for (int i = 0; i < P; ++i) for (int j = 0; j < P; ++j) {
	double mag = i == j ? 0.5 * VnaWorld::u(seed, 77, i, j) : (0.2 + 0.4 * VnaWorld::u(seed, 77, i, j)) / (P > 2 ? P - 1 : 1);
	double ph = 2 * M_PI * VnaWorld::u(seed, 78, i, j) + 0.3 * x;
	S(i, j) = std::polar(mag, ph);
    }
    return S;
}
