// ArrayModel: abstract typed frequency x rows x columns array with the two z0 modes
// of vnadata(3).  Written from the manual page; shares no code with libvna.
#pragma once
#include "core.h"
#include "conv_table.h"

static const double AM_Z0 = 50.0;

struct ArrayModel {
    int type = 0, R = 0, C = 0, F = 0;
    std::vector<double> freq;
    std::vector<std::vector<zc>> cell;	// [F][R*C] row-major
    bool per_f = false;
    std::vector<zc> z0;			// [P] (simple mode)
    std::vector<std::vector<zc>> fz0;	// [F][P] (per-frequency mode)
    int filetype = 0;			// sticky
    std::string format;			// as reported by get_format ("" = none)
    bool has_format = false;
    int fprec = 7, dprec = 6;

    int P() const { return R > C ? R : C; }
    bool consistent() const {
	if ((int)freq.size() != F || (int)cell.size() != F) return false;
	for (auto &m : cell) if ((int)m.size() != R * C) return false;
	if (per_f) { if ((int)fz0.size() != F) return false; for (auto &v : fz0) if ((int)v.size() != P()) return false; }
	else if ((int)z0.size() != P()) return false;
	return true;
    }

    static bool dims_ok(int type, int r, int c) {
	switch (type) {
	case VPT_UNDEF: return true;
	case VPT_S: case VPT_Z: case VPT_Y: return r == c;
	case VPT_T: case VPT_U: case VPT_H: case VPT_G: case VPT_A: case VPT_B: return r == 2 && c == 2;
	case VPT_ZIN: return r == 1;
	default: return false;
	}
    }
    // resize: the first min(old, new) flat cells of every kept frequency keep their value,
    // everything newly exposed has its initial value (0, 0, 50 ohm)
    bool resize(int t, int r, int c, int f) {
	if (r < 0 || c < 0 || f < 0 || !dims_ok(t, r, c)) return false;
	int oldP = P();
	size_t ncell = (size_t)r * c;
	cell.resize((size_t)f);
	for (auto &m : cell) m.resize(ncell, zc(0, 0));	// truncates or zero-extends flat cells
	freq.resize((size_t)f, 0.0);
	int newP = r > c ? r : c;
	(void)oldP;
	if (per_f) {
	    fz0.resize((size_t)f);
	    for (auto &v : fz0) v.resize((size_t)newP, zc(AM_Z0, 0));
	} else z0.resize((size_t)newP, zc(AM_Z0, 0));
	type = t; R = r; C = c; F = f;
	return true;
    }
    void to_simple() {	// discard per-frequency values: everything 50 ohm
	if (!per_f) return;
	per_f = false;
	fz0.clear();
	z0.assign((size_t)P(), zc(AM_Z0, 0));
    }
    void to_perf() {	// every frequency gets the simple vector
	if (per_f) return;
	per_f = true;
	fz0.assign((size_t)F, z0);
	z0.clear();
    }
    bool init(int t, int r, int c, int f) {
	if (r < 0 || c < 0 || f < 0 || !dims_ok(t, r, c)) return false;
	type = 0; R = C = F = 0;
	freq.clear(); cell.clear();
	per_f = false; fz0.clear(); z0.clear();
	return resize(t, r, c, f);
    }
    const std::vector<zc> &z0_at(int findex) const { return per_f ? fz0[(size_t)findex] : z0; }

    // conversion: 0 ok, -1 invalid (EINVAL).  `out` may alias `*this`.
    static const ConvEntry *find_conv(int from, int to, bool nport) {
	for (const ConvEntry &e : CONV_TABLE)
	    if (e.from == from && e.to == to && ((e.kind >= 3) == nport)) return &e;
	return nullptr;
    }
    static bool is_szy(int t) { return t == VPT_S || t == VPT_Z || t == VPT_Y; }
    // which function the documentation's table selects, and whether the pair is valid for these dimensions
    bool conv_valid(int to, const ConvEntry **ep) const {
	*ep = nullptr;
	if (to < 0 || to >= VPT_NTYPES) return false;
	if (type == to) {
	    if (type == VPT_ZIN) return R == 1 || C == 1;
	    return true;
	}
	if (type == VPT_UNDEF || to == VPT_UNDEF || type == VPT_ZIN) return false;
	bool nport = is_szy(type) && (is_szy(to) || to == VPT_ZIN);
	const ConvEntry *e = find_conv(type, to, nport);
	if (!e) return false;
	if (nport) { if (R != C) return false; }
	else if (R != 2 || C != 2) return false;
	*ep = e;
	return true;
    }
    static void apply_conv(const ConvEntry *e, const std::vector<zc> &in, const std::vector<zc> &z, int n, std::vector<zc> &out) {
	std::vector<cplx> ci(in.size() ? in.size() : 1), cz(z.size() ? z.size() : 1);
	for (size_t i = 0; i < in.size(); ++i) ci[i] = toc(in[i]);
	for (size_t i = 0; i < z.size(); ++i) cz[i] = toc(z[i]);
	size_t no = (e->kind == 2 || e->kind == 5) ? (size_t)n : (size_t)n * n;
	std::vector<cplx> co(no ? no : 1);
	typedef cplx (*M2)[2];
	typedef const cplx (*CM2)[2];
	switch (e->kind) {
	case 0: ((void (*)(CM2, M2))e->fn)((CM2)ci.data(), (M2)co.data()); break;
	case 1: ((void (*)(CM2, M2, const cplx *))e->fn)((CM2)ci.data(), (M2)co.data(), cz.data()); break;
	case 2: ((void (*)(CM2, cplx *, const cplx *))e->fn)((CM2)ci.data(), co.data(), cz.data()); break;
	case 3: ((void (*)(const cplx *, cplx *, int))e->fn)(ci.data(), co.data(), n); break;
	case 4: ((void (*)(const cplx *, cplx *, const cplx *, int))e->fn)(ci.data(), co.data(), cz.data(), n); break;
	case 5: ((void (*)(const cplx *, cplx *, const cplx *, int))e->fn)(ci.data(), co.data(), cz.data(), n); break;
	}
	out.resize(no);
	for (size_t i = 0; i < no; ++i) out[i] = toz(co[i]);
    }
    int convert(ArrayModel &out, int to) const {
	const ConvEntry *e;
	if (!conv_valid(to, &e)) return -1;
	ArrayModel src = *this;		// tolerate aliasing
	bool same_obj = &out == this;
	bool to_zin = e && (e->kind == 2 || e->kind == 5);
	int n = src.R;
	if (!same_obj) {
	    int nr = src.R, nc = src.C;
	    if (to_zin) { nc = nr < nc ? nr : nc; nr = 1; }
	    out.init(VPT_UNDEF, nr, nc, src.F);
	    out.freq = src.freq;
	    if (!src.per_f) {
		// the destination receives the source's impedances for its own ports
		for (int p = 0; p < out.P() && p < src.P(); ++p) out.z0[(size_t)p] = src.z0[(size_t)p];
	    } else if (src.F > 0 && src.P() > 0) {	// with no frequency or no port there is nothing to carry over
		out.to_perf();
		for (int f = 0; f < src.F; ++f)
		    for (int p = 0; p < out.P() && p < src.P(); ++p) out.fz0[(size_t)f][(size_t)p] = src.fz0[(size_t)f][(size_t)p];
	    }
	    out.filetype = src.filetype;
	    out.format = src.format; out.has_format = src.has_format;
	    out.fprec = src.fprec; out.dprec = src.dprec;
	}
	if (!e) {	// same type: plain copy
	    if (!same_obj) { out.cell = src.cell; out.type = to; }
	    return 0;
	}
	if (to_zin && same_obj) {
	    out.R = 1; out.C = n < src.C ? n : src.C;
	    for (auto &m : out.cell) m.assign((size_t)out.C, zc(0, 0));
	    // a 1 x 0 object still has one port (ports = max(rows, columns))
	    if (out.per_f) { for (auto &v : out.fz0) v.resize((size_t)out.P(), zc(AM_Z0, 0)); }
	    else out.z0.resize((size_t)out.P(), zc(AM_Z0, 0));
	}
	for (int f = 0; f < src.F; ++f) {
	    std::vector<zc> res;
	    apply_conv(e, src.cell[(size_t)f], src.z0_at(f), n, res);
	    out.cell[(size_t)f] = res;
	}
	out.type = to;
	return 0;
    }
};
