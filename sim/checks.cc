#include "core.h"
// "C11.doc" selects engine "doc" explicitly; bare ids use their default engine.
const char *engine_for_check(const std::string &check)
{
    size_t dot = check.find('.');
    if (dot != std::string::npos) {
	static std::string name;
	name = check.substr(dot + 1);
	size_t d2 = name.find('.');
	if (d2 != std::string::npos) name = name.substr(0, d2);
	return name.c_str();
    }
    std::string id = check.substr(0, 3);
    if (id == "C13" || id == "C14") return "doc";
    if (id == "C15" || id == "C05" || id == "C06") return "array";
    if (id == "C16" || id == "C17" || id == "C20" || id == "C10" || id == "C07") return "cal";
    if (id == "C09") return "corrupt";
    if (id == "C03") return "chaos";
    if (const char *e = getenv("VSIM_ENGINE")) return e;
    return nullptr;
}
