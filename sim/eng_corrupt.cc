// corrupt engine (C09): files written by the real savers are damaged on the simulated disk
// (crash-truncated, bit-rotted, block-damaged, record-shuffled) or fail while being read, and
// handed to the loaders.  Oracle: the loader returns; it fails cleanly (failure value, errno,
// callback category, nothing left behind) or yields a self-consistent object that can be saved
// and re-loaded to the same content.
#include "core.h"
#include "array_common.h"
#include "cal_driver.h"
#include "doc_common.h"

void sim_arm_timer(int seconds);
extern long g_sub_index;

namespace {

#include "corrupt_corpus.h"

struct CWorld {
    Ctx &c;
    bool cb = true;
    std::string name;		// file under test
    int kind = 0;		// 0 vnadata file, 1 vnacal file, 2 YAML text
    std::string pristine;
    // what the undamaged file loads as (truncation sweep of a network data file): a truncated file that is accepted may have
    // lost its tail, it cannot have gained or changed anything before the place of the cut
    struct Ref { bool have = false; int T = 0, R = 0, C = 0, F = 0; std::vector<double> f; std::vector<std::vector<cplx>> cells; } ref;
    bool prefix_check = false, capture_ref = false;
    explicit CWorld(Ctx &ctx) : c(ctx) {}
};

static bool same_num(double a, double b) { return (a != a && b != b) || a == b; }

// ---- builders ----------------------------------------------------------------------------
static bool build_data(CWorld &w, const Op &op)
{
    Ctx &c = w.c;
    int type = (int)op.I(0), R = (int)op.I(1), C = (int)op.I(2), F = (int)op.I(3);
    long seed = op.I(4);
    int z0cls = (int)op.I(5);
    w.name = op.S(0).empty() ? "d.npd" : op.S(0);
    w.kind = 0;
    vnadata_t *v;
    int rc;
    { LibCall lc(c); v = vnadata_alloc(sim_error_fn, nullptr); rc = v ? vnadata_init(v, (vnadata_parameter_type_t)type, R, C, F) : -1; lc.done(); }
    if (rc != 0) { if (v) { LibCall lc(c); vnadata_free(v); lc.done(); } return false; }
    int P = R > C ? R : C;
    std::vector<zc> z0((size_t)P);
    for (int p = 0; p < P; ++p) z0[p] = gen_z0(seed, z0cls == 2 ? 0 : p, z0cls == 2 ? 0 : z0cls == 3 ? 1 : 2);
    {
	LibCall lc(c);
	if (z0cls == 4 && F > 0) { for (int f = 0; f < F; ++f) { std::vector<cplx> zz; for (int p = 0; p < P; ++p) zz.push_back(toc(gen_z0(seed + f, p, 1))); vnadata_set_fz0_vector(v, f, zz.data()); } }
	else { std::vector<cplx> zz; for (auto z : z0) zz.push_back(toc(z)); if (P > 0) vnadata_set_z0_vector(v, zz.data()); }
	for (int f = 0; f < F; ++f) {
	    std::vector<zc> m = gen_network(type, R, C, seed, f, 0, z0);
	    std::vector<cplx> buf; for (auto z : m) buf.push_back(toc(z));
	    if (!buf.empty()) vnadata_set_matrix(v, f, buf.data());
	    vnadata_set_frequency(v, f, gen_freq(seed, f, 0));
	}
	if (!op.S(1).empty()) vnadata_set_format(v, op.S(1).c_str());
	if (op.I(6) > 0) vnadata_set_dprecision(v, (int)op.I(6));
	if (op.I(7) > 0) vnadata_set_fprecision(v, (int)op.I(7));
	rc = vnadata_save(v, w.name.c_str());
	vnadata_free(v);
	lc.done();
    }
    if (rc != 0) return false;
    w.pristine = simfs()[w.name];
    return true;
}

static bool build_cal(CWorld &w, const Op &op)
{
    Ctx &c = w.c;
    w.name = "c.vnacal";
    w.kind = 1;
    vnacal_t *vcp;
    { LibCall lc(c); vcp = vnacal_create(sim_error_fn, nullptr); lc.done(); }
    if (!vcp) return false;
    int ncal = (int)std::max<long>(1, op.I(3));
    bool ok = true;
    for (int q = 0; q < ncal && ok; ++q) {
	SessionSpec ss;
	static const int types[] = {VNACAL_T8, VNACAL_U8, VNACAL_TE10, VNACAL_UE10, VNACAL_T16, VNACAL_U16, VNACAL_UE14, VNACAL_E12};
	ss.type = types[(op.I(0) + q) % 8]; ss.P = (int)std::max<long>(1, std::min<long>(op.I(1), 2)); ss.F = (int)std::max<long>(1, op.I(2));
	if (world_class_of(ss.type) == W16) ss.P = 1;
	ss.world.P = ss.P; ss.world.cls = world_class_of(ss.type); ss.world.seed = op.I(4) + q;
	for (int f = 0; f < ss.F; ++f) ss.fv.push_back(1e9 + 2e8 * f);
	std::vector<ParamSpec> params(3);
	params[0].kind = 0; params[0].predefined = VNACAL_SHORT;
	params[1].kind = 0; params[1].predefined = VNACAL_OPEN;
	params[2].kind = 0; params[2].predefined = VNACAL_MATCH;
	for (int p = 1; p <= ss.P; ++p) for (int g = 0; g < 3; ++g) { StdSpec st; st.kind = 0; st.ports = {p}; st.params = {g}; st.full = true; ss.stds.push_back(st); }
	if (ss.P == 2) { StdSpec st; st.kind = 2; st.ports = {1, 2}; st.full = true; ss.stds.push_back(st); }
	vnacal_new_t *vnp;
	{ LibCall lc(c); vnp = vnacal_new_alloc(vcp, (vnacal_type_t)ss.type, ss.P, ss.P, ss.F); if (vnp) vnacal_new_set_frequency_vector(vnp, ss.fv.data()); lc.done(); }
	if (!vnp) { ok = false; break; }
	for (auto &st : ss.stds) {
	    std::vector<int> hs;
	    for (int pi : st.params) hs.push_back(params[(size_t)pi].predefined);
	    if (feed_standard(c, vnp, ss, st, params, hs, nullptr).rc != 0) ok = false;
	}
	if (ok) { LibCall lc(c); if (vnacal_new_solve(vnp) != 0 || vnacal_add_calibration(vcp, strf("cal%d", q).c_str(), vnp) < 0) ok = false; lc.done(); }
	{ LibCall lc(c); vnacal_new_free(vnp); lc.done(); }
    }
    if (ok) {
	LibCall lc(c);
	vnacal_property_set(vcp, -1, "instrument=sim");
	vnacal_property_set(vcp, -1, "notes[0]=first");
	vnacal_property_set(vcp, -1, "notes[1].k=a: b");
	vnacal_property_set(vcp, 0, "switches[0][1]=2");
	if (op.I(5) > 0) vnacal_set_dprecision(vcp, (int)op.I(5));
	ok = vnacal_save(vcp, w.name.c_str()) == 0;
	lc.done();
    }
    { LibCall lc(c); vnacal_free(vcp); lc.done(); }
    if (!ok) return false;
    w.pristine = simfs()[w.name];
    return true;
}

static bool build_tree(CWorld &w, const Op &op)
{
    Ctx &c = w.c;
    w.name = "t.yaml";
    w.kind = 2;
    vnaproperty_t *root = nullptr;
    Rng r((uint64_t)op.I(0) + 17);
    static const char *K[] = {"a", "b", "name", "my key", "x1", "a\\.b", "\xc3\xa9"};
    static const char *V[] = {"v", "1", "3.14", "", "~", "null", "a: b", "- x", "#c", "a\nb", "\xe4\xb8\xad", "'q'", "\"dq\"", "[a]", "{b: c}"};
    int n = (int)std::max<long>(1, op.I(1));
    bool ok = true;
    for (int q = 0; q < n && ok; ++q) {
	std::string d = K[r.below(7)];
	if (r.chance(0.5)) d += strf("[%ld]", (long)r.below(3));
	if (r.chance(0.4)) d += std::string(".") + K[r.below(5)];
	LibCall lc(c);
	ok = vnaproperty_set(&root, "%s=%s", d.c_str(), V[r.below(15)]) == 0;
	lc.done();
    }
    FILE *fp = nullptr;
    { LibCall lc(c); fp = simfs_open(w.name.c_str(), "w"); if (fp) { ok = vnaproperty_export_yaml_to_file(root, fp, w.name.c_str(), sim_error_fn, nullptr) == 0; int in = g_sim.in_lib; g_sim.in_lib = 0; fclose(fp); g_sim.in_lib = in; } else ok = false; vnaproperty_delete(&root, "."); lc.done(); }
    if (!ok) return false;
    w.pristine = simfs()[w.name];
    return true;
}

// ---- the oracle ----------------------------------------------------------------------------
struct LoadFaults { long eio_at = -1, eof_at = -1, frag = 0, bufsize = -1; };

static void check_failure(CWorld &w, const char *fn, int err, const std::string &ctxmsg)
{
    Ctx &c = w.c;
    if (err == 0) { c.violate("model", std::string(fn) + ":errno", strf("%s failed with errno 0 (%s)", fn, ctxmsg.c_str())); return; }
    if (w.cb) {
	if (g_sim.callbacks.empty()) { c.violate("model", std::string(fn) + ":callback", strf("%s failed (errno %s) without calling the error function (%s)", fn, errno_name(err), ctxmsg.c_str())); return; }
	for (auto &cbk : g_sim.callbacks) {
	    if (cbk.msg.find('\n') != std::string::npos) { c.violate("model", std::string(fn) + ":message", strf("error message is not a single line: %s", Json(cbk.msg).str().c_str())); return; }
	    if (cbk.category == VNAERR_INTERNAL) { c.violate("model", std::string(fn) + ":category", strf("loader reported an internal error for damaged input: %s (%s)", cbk.msg.c_str(), ctxmsg.c_str())); return; }
	}
    }
    c.count("probe.rejected");
    if (getenv("VSIM_DUMP")) for (auto &cbk : g_sim.callbacks) fprintf(stderr, "  rejected: %s\n", cbk.msg.c_str());
}

// one load of the (damaged) file; ctxmsg describes the damage for reports
static void load_and_check(CWorld &w, const LoadFaults &lf, const std::string &ctxmsg, int variant)
{
    Ctx &c = w.c;
    if (c.violated) return;
    sim_arm_timer(10);
    Op fop;
    fop.k = "load";
    if (lf.eio_at >= 0) { Fault f; f.t = "read.eio"; f.n = lf.eio_at; fop.f.push_back(f); }
    if (lf.eof_at >= 0) { Fault f; f.t = "read.eof"; f.n = lf.eof_at; fop.f.push_back(f); }
    if (lf.frag > 0) { Fault f; f.t = "read.frag"; f.n = lf.frag; fop.f.push_back(f); }
    if (lf.bufsize >= 0) { Fault f; f.t = "bufsize"; f.n = lf.bufsize; fop.f.push_back(f); }
    size_t live_before = ledger_live();
    c.count("loads");
    if (w.kind == 0) {
	vnadata_t *v;
	{ LibCall lc(c); v = vnadata_alloc(w.cb ? sim_error_fn : nullptr, nullptr); lc.done(); }
	int rc, e;
	// variant bit 1: the destination already holds a recognisable network, which a successful load must replace
	const double SENT_F = 12345.678;
	if (variant & 2) { LibCall lc(c); if (vnadata_init(v, VPT_T, 2, 2, 3) == 0) { for (int f = 0; f < 3; ++f) { vnadata_set_frequency(v, f, SENT_F + f); for (int q = 0; q < 4; ++q) vnadata_set_cell(v, f, q / 2, q % 2, 7.0 + q); } } lc.done(); }
	{
	    LibCall lc(c, &fop);
	    if (variant & 1) { FILE *fp = simfs_open(w.name.c_str(), "r"); rc = -1; if (fp) { rc = vnadata_fload(v, fp, w.name.c_str()); int se = errno, in = g_sim.in_lib; g_sim.in_lib = 0; fclose(fp); g_sim.in_lib = in; errno = se; } }
	    else rc = vnadata_load(v, w.name.c_str());
	    e = errno;
	    if (rc != 0 && !c.violated) check_failure(w, "vnadata_load", e, ctxmsg);
	    lc.done();
	    c11_discipline(c, "vnadata_load", "vnadata_load", rc != 0, e, w.cb, C11_MAY);
	}
	if (!c.violated && rc != 0) {
	    // destination still usable: query, re-initialise, free
	    LibCall lc(c);
	    (void)vnadata_get_type(v); (void)vnadata_get_frequencies(v);
	    if (vnadata_init(v, VPT_S, 1, 1, 1) != 0) c.violate("model", "vnadata_load:usable", "destination of a failed load cannot be re-initialised (" + ctxmsg + ")");
	    lc.done();
	}
	if (!c.violated && rc == 0 && (w.prefix_check || w.capture_ref) && lf.eio_at < 0 && lf.eof_at < 0) {
	    // capture (the undamaged file) or compare (a truncated one)
	    CWorld::Ref cur;
	    {
		LibCall lc(c);
		cur.have = true; cur.T = vnadata_get_type(v); cur.R = vnadata_get_rows(v); cur.C = vnadata_get_columns(v); cur.F = vnadata_get_frequencies(v);
		for (int f = 0; f < cur.F; ++f) { cur.f.push_back(vnadata_get_frequency(v, f)); std::vector<cplx> row; for (int i = 0; i < cur.R; ++i) for (int j = 0; j < cur.C; ++j) row.push_back(vnadata_get_cell(v, f, i, j)); cur.cells.push_back(row); }
		lc.done();
	    }
	    if (w.capture_ref) w.ref = cur;
	    else if (w.ref.have && cur.F > 0) {
		auto same = [](cplx a, cplx b) { return same_num(__real__ a, __real__ b) && same_num(__imag__ a, __imag__ b); };
		if (cur.T != w.ref.T || cur.R != w.ref.R || cur.C != w.ref.C) c.count("probe.truncated_file_reads_as_another_shape");	// (the head of a Touchstone 1 file of n ports can be a whole file of fewer ports)
		else if (cur.F > w.ref.F) c.violate("model", "vnadata_load:truncated", strf("a truncated file loads with %d frequencies, the whole file with %d (%s)", cur.F, w.ref.F, ctxmsg.c_str()));
		else for (int f = 0; f < cur.F && !c.violated; ++f) {
		    int diff = 0;
		    for (size_t q = 0; q < cur.cells[(size_t)f].size(); ++q) if (!same(cur.cells[(size_t)f][q], w.ref.cells[(size_t)f][q])) ++diff;
		    bool last = f == cur.F - 1;
		    // (the last number before the cut may have lost digits: one cell of the last row, or its frequency, may differ)
		    if ((!last && (diff > 0 || cur.f[(size_t)f] != w.ref.f[(size_t)f])) || (last && diff > 1))
			c.violate("model", "vnadata_load:truncated", strf("a truncated file that is accepted differs from the whole file in %d cell(s) of row %d of %d before the cut (%s)", diff, f, cur.F, ctxmsg.c_str()));
		}
		if (!c.violated) c.count("probe.truncated_file_is_a_prefix");
	    }
	}
	if (!c.violated && rc == 0) {
	    c.count("probe.accepted");
	    int T, R, C, F;
	    { LibCall lc(c); T = vnadata_get_type(v); R = vnadata_get_rows(v); C = vnadata_get_columns(v); F = vnadata_get_frequencies(v); lc.done(); }
	    bool stale = false;
	    if ((variant & 2) && T == VPT_T && F == 3) { LibCall lc(c); stale = vnadata_get_frequency(v, 0) == SENT_F; lc.done(); }
	    if (stale) c.violate("model", "vnadata_load:stale", "load reported success but the destination still holds the network it held before (" + ctxmsg + ")");
	    else if (!ArrayModel::dims_ok(T, R, C) || T == VPT_UNDEF || R < 0 || C < 0 || F < 0) c.violate("model", "vnadata_load:consistent", strf("loaded object has type %d with dimensions %dx%d, %d frequencies (%s)", T, R, C, F, ctxmsg.c_str()));
	    else {
		bool finite = true;
		{
		    LibCall lc(c);
		    for (int f = 0; f < F && !c.violated; ++f) {
			double fr = vnadata_get_frequency(v, f);
			if (fr == HUGE_VAL && false) finite = false;
			if (!std::isfinite(fr)) finite = false;
			for (int q = 0; q < R * C; ++q) { cplx x = vnadata_get_cell(v, f, q / C, q % C); if (!std::isfinite(__real__ x) || !std::isfinite(__imag__ x)) finite = false; }
			for (int p = 0; p < std::max(R, C); ++p) { cplx z = vnadata_get_fz0(v, f, p); if (!std::isfinite(__real__ z) || !std::isfinite(__imag__ z)) finite = false; }
		    }
		    lc.done();
		}
		int ports = C;
		if (!c.violated && ports >= 1 && F >= 1 && finite) {
		    // savable (NPD, maximum precision, its own type in rectangular form) and re-loadable to the same content
		    vnadata_t *v2;
		    int r1, r2 = -1;
		    std::string msg;
		    {
			LibCall lc(c);
			v2 = vnadata_alloc(sim_error_fn, nullptr);
			// first as loaded (format, precisions and all that the file set): whether this succeeds is not judged, that it returns is
			(void)vnadata_save(v, "asloaded.npd");
			g_sim.callbacks.clear();
			vnadata_set_filetype(v, VNADATA_FILETYPE_NPD);
			vnadata_set_format(v, nullptr);
			vnadata_set_dprecision(v, VNADATA_MAX_PRECISION);
			vnadata_set_fprecision(v, VNADATA_MAX_PRECISION);
			r1 = vnadata_save(v, "resave.npd");
			if (!g_sim.callbacks.empty()) msg = g_sim.callbacks.back().msg;
			if (r1 == 0) { r2 = vnadata_load(v2, "resave.npd"); if (r2 != 0 && !g_sim.callbacks.empty()) msg = g_sim.callbacks.back().msg; }
			lc.done();
		    }
		    if (r1 != 0) c.violate("model", "vnadata_load:resave", strf("object accepted by the loader cannot be saved: %s (%s)", msg.c_str(), ctxmsg.c_str()));
		    else if (r2 != 0) c.violate("model", "vnadata_load:reload", strf("object accepted by the loader, saved at maximum precision, is rejected on re-load: %s (%s)", msg.c_str(), ctxmsg.c_str()));
		    else {
			LibCall lc(c);
			bool same = vnadata_get_type(v2) == T && vnadata_get_rows(v2) == R && vnadata_get_columns(v2) == C && vnadata_get_frequencies(v2) == F;
			for (int f = 0; f < F && same; ++f) {
			    if (!same_num(vnadata_get_frequency(v, f), vnadata_get_frequency(v2, f))) same = false;
			    for (int q = 0; q < R * C && same; ++q) { cplx a = vnadata_get_cell(v, f, q / C, q % C), b = vnadata_get_cell(v2, f, q / C, q % C); if (!same_num(__real__ a, __real__ b) || !same_num(__imag__ a, __imag__ b)) same = false; }
			    for (int p = 0; p < std::max(R, C) && same; ++p) { cplx a = vnadata_get_fz0(v, f, p), b = vnadata_get_fz0(v2, f, p); if (!same_num(__real__ a, __real__ b) || !same_num(__imag__ a, __imag__ b)) same = false; }
			}
			lc.done();
			if (!same) c.violate("model", "vnadata_load:roundtrip", "object accepted by the loader does not survive save and re-load at maximum precision (" + ctxmsg + ")");
			else c.count("probe.accepted_roundtrip");
		    }
		    { LibCall lc(c); vnadata_free(v2); lc.done(); }
		}
	    }
	}
	{ LibCall lc(c); vnadata_free(v); lc.done(); }
    } else if (w.kind == 1) {
	vnacal_t *vcp; int e;
	{
	    LibCall lc(c, &fop);
	    vcp = vnacal_load(w.name.c_str(), w.cb ? sim_error_fn : nullptr, nullptr);
	    e = errno;
	    if (!vcp && !c.violated) check_failure(w, "vnacal_load", e, ctxmsg);
	    bool eio = g_sim.fired_read_eio > 0;
	    lc.done();
	    // the YAML reader consumes its input to the end: if the stream reported a read error (not an early end), what arrived is not
	    // the file, and a load that reports success would hand out part of a calibration set as the whole
	    if (vcp && eio && !c.violated) { c.violate("model", "vnacal_load:readerror", "vnacal_load reported success although the stream returned a read error (" + ctxmsg + ")"); }
	    c11_discipline(c, "vnacal_load", "vnacal_load", vcp == nullptr, e, w.cb, C11_MUST);
	}
	if (!c.violated && !vcp && ledger_live() != live_before) { check_ledger_empty(c, ("failed vnacal_load left allocations behind (" + ctxmsg + ")").c_str()); }
	if (!c.violated && vcp) {
	    c.count("probe.accepted");
	    int end; { LibCall lc(c); end = vnacal_get_calibration_end(vcp); lc.done(); }
	    bool finite = true;
	    for (int ci = 0; ci < end && !c.violated; ++ci) {
		const char *nm; int ty, R, C, F; const double *fv;
		{ LibCall lc(c); nm = vnacal_get_name(vcp, ci); ty = vnacal_get_type(vcp, ci); R = vnacal_get_rows(vcp, ci); C = vnacal_get_columns(vcp, ci); F = vnacal_get_frequencies(vcp, ci); fv = vnacal_get_frequency_vector(vcp, ci); lc.done(); }
		if (!nm) continue;
		if (ty < VNACAL_T8 || ty > VNACAL_E12 || ty == _VNACAL_E12_UE14 || R < 1 || C < 1 || F < 0 || (F > 0 && !fv)) { c.violate("model", "vnacal_load:consistent", strf("loaded calibration \"%s\" has type %d, %dx%d, %d frequencies (%s)", nm, ty, R, C, F, ctxmsg.c_str())); break; }
		for (int f = 0; f < F; ++f) { if (!std::isfinite(fv[f])) finite = false; if (f > 0 && !(fv[f] > fv[f - 1])) { c.violate("model", "vnacal_load:ascending", strf("loaded calibration \"%s\": frequency %d (%g) is not above frequency %d (%g) (%s)", nm, f, fv[f], f - 1, fv[f - 1], ctxmsg.c_str())); break; } }
	    }
	    if (!c.violated && finite) {
		int r1; vnacal_t *v2 = nullptr; std::string msg;
		{ LibCall lc(c); vnacal_set_dprecision(vcp, VNACAL_MAX_PRECISION); vnacal_set_fprecision(vcp, VNACAL_MAX_PRECISION); r1 = vnacal_save(vcp, "resave.vnacal"); if (!g_sim.callbacks.empty()) msg = g_sim.callbacks.back().msg; if (r1 == 0) { v2 = vnacal_load("resave.vnacal", sim_error_fn, nullptr); if (!v2 && !g_sim.callbacks.empty()) msg = g_sim.callbacks.back().msg; } lc.done(); }
		if (r1 != 0) c.violate("model", "vnacal_load:resave", strf("calibrations accepted by the loader cannot be saved: %s (%s)", msg.c_str(), ctxmsg.c_str()));
		else if (!v2) c.violate("model", "vnacal_load:reload", strf("file accepted by the loader, saved again at maximum precision, is rejected on re-load: %s (%s)", msg.c_str(), ctxmsg.c_str()));
		else {
		    LibCall lc(c);
		    int end2 = vnacal_get_calibration_end(v2);
		    int live1 = 0, live2 = 0;
		    for (int ci = 0; ci < end; ++ci) if (vnacal_get_name(vcp, ci)) ++live1;
		    for (int ci = 0; ci < end2; ++ci) if (vnacal_get_name(v2, ci)) ++live2;
		    bool same = live1 == live2;
		    lc.done();
		    if (!same) c.violate("model", "vnacal_load:roundtrip", strf("%d calibrations were loaded but %d come back after save and re-load (%s)", live1, live2, ctxmsg.c_str()));
		    else c.count("probe.accepted_roundtrip");
		    { LibCall lc2(c); vnacal_free(v2); lc2.done(); }
		}
	    }
	    { LibCall lc(c); vnacal_free(vcp); lc.done(); }
	}
    } else {
	vnaproperty_t *root = nullptr;
	int rc, e;
	{
	    LibCall lc(c, &fop);
	    if (variant & 1) { std::string text = simfs()[w.name]; size_t nul = text.find('\0'); if (nul != std::string::npos) text.resize(nul); rc = vnaproperty_import_yaml_from_string(&root, text.c_str(), w.cb ? sim_error_fn : nullptr, nullptr); }
	    else { FILE *fp = simfs_open(w.name.c_str(), "r"); rc = -1; if (fp) { rc = vnaproperty_import_yaml_from_file(&root, fp, w.name.c_str(), w.cb ? sim_error_fn : nullptr, nullptr); int se = errno, in = g_sim.in_lib; g_sim.in_lib = 0; fclose(fp); g_sim.in_lib = in; errno = se; } }
	    e = errno;
	    if (rc != 0 && !c.violated) check_failure(w, "vnaproperty_import_yaml", e, ctxmsg);
	    lc.done();
	    c11_discipline(c, "vnaproperty_import_yaml", "vnaproperty_import_yaml", rc != 0, e, w.cb, C11_MUST);
	}
	if (!c.violated && rc == 0) {
	    c.count("probe.accepted");
	    std::string d1 = real_digest(c, root);
	    if (!c.violated) {
		vnaproperty_t *r2 = nullptr; int r1 = -1, rr = -1;
		{ LibCall lc(c); FILE *fp = simfs_open("reexport.yaml", "w"); if (fp) { r1 = vnaproperty_export_yaml_to_file(root, fp, "reexport.yaml", sim_error_fn, nullptr); int in = g_sim.in_lib; g_sim.in_lib = 0; fclose(fp); g_sim.in_lib = in; } if (r1 == 0) { std::string t = simfs()["reexport.yaml"]; rr = vnaproperty_import_yaml_from_string(&r2, t.c_str(), sim_error_fn, nullptr); } lc.done(); }
		if (r1 == 0 && rr == 0) { std::string d2 = real_digest(c, r2); if (!c.violated && d1 != d2) c.violate("model", "vnaproperty_import_yaml:roundtrip", "tree accepted by the importer does not survive export and import: " + d1 + " vs " + d2 + " (" + ctxmsg + ")"); else c.count("probe.accepted_roundtrip"); }
		else if (r1 == 0 && !c.violated) c.count("probe.reexport_rejected");
		{ LibCall lc(c); vnaproperty_delete(&r2, "."); lc.done(); }
	    }
	}
	{ LibCall lc(c); vnaproperty_delete(&root, "."); lc.done(); }
    }
    if (!c.violated && ledger_live() != live_before) check_ledger_empty(c, ("load left allocations behind (" + ctxmsg + ")").c_str());
    if (c.violated && getenv("VSIM_DUMP")) { fprintf(stderr, "---- %s as loaded ----\n", w.name.c_str()); fwrite(simfs()[w.name].data(), 1, simfs()[w.name].size(), stderr); fprintf(stderr, "\n---- end ----\n"); }
    sim_arm_timer(20);
}

static const char SUBST[] = {'0', '9', '-', '.', 'e', 'j', '#', '[', ']', ':', '\n', (char)0x80};

static void run_op(CWorld &w, const Op &op)
{
    Ctx &c = w.c;
    const std::string &k = op.k;
    c.log("op %s", k.c_str());
    if (k == "mkdata") { if (!build_data(w, op)) { c.count("probe.build_refused"); w.name.clear(); } return; }
    if (k == "mkcal") { if (!build_cal(w, op)) { c.violate("harness", "mkcal", "could not build the calibration corpus file"); } return; }
    if (k == "mktext") {
	const CorpusText &t = CORPUS_TEXT[(size_t)op.I(0) % (size_t)N_CORPUS_TEXT];
	w.name = t.name; w.kind = t.kind; w.pristine = t.text;
	simfs()[w.name] = w.pristine;
	// the pristine text must itself be accepted (else the corpus entry is wrong, which is a harness error)
	load_and_check(w, LoadFaults(), "hand-written corpus file, undamaged", 0);
	if (!c.violated && c.stats["probe.accepted"] == 0) c.violate("harness", "mktext", strf("corpus text %ld is rejected undamaged", op.I(0)));
	return;
    }
    if (k == "mktree") { if (!build_tree(w, op)) { c.violate("harness", "mktree", "could not build the YAML corpus file"); } return; }
    if (w.name.empty()) return;
    const std::string pristine = w.pristine;
    long n = (long)pristine.size();
    if (k == "sweep") {
	// enumerated single-fault families: 0 truncation at every offset (crash during an in-place save),
	// 1 read error at every offset, 2 single-byte substitution at every offset from a 12-byte alphabet
	int family = (int)op.I(0);
	long from = std::max<long>(0, op.I(1)), to = op.I(2) < 0 ? n : std::min<long>(n, op.I(2));
	long step = std::max<long>(1, op.I(3));
	int variant = (int)op.I(4);
	if (family == 0 && w.kind == 0) {	// reference: the undamaged file
	    w.ref = CWorld::Ref(); w.prefix_check = false; w.capture_ref = true;
	    simfs()[w.name] = pristine;
	    load_and_check(w, LoadFaults(), "undamaged file (reference of the truncation sweep)", 0);
	    w.capture_ref = false;
	    w.prefix_check = w.ref.have;
	}
	for (long off = from; off <= to && !c.violated; off += step) {
	    g_sub_index = off;
	    LoadFaults lf;
	    if (family == 0) { simfs()[w.name] = pristine.substr(0, (size_t)off); load_and_check(w, lf, strf("file truncated to %ld of %ld bytes", off, n), variant); }
	    else if (family == 1) { simfs()[w.name] = pristine; lf.eio_at = off; load_and_check(w, lf, strf("read error at byte %ld of %ld", off, n), variant); }
	    else {
		if (off >= n) break;
		for (char s : SUBST) {
		    if (pristine[(size_t)off] == s) continue;
		    std::string d = pristine; d[(size_t)off] = s;
		    simfs()[w.name] = d;
		    load_and_check(w, lf, strf("byte %ld of %ld replaced by 0x%02x", off, n, (unsigned char)s), variant);
		    if (c.violated) break;
		}
	    }
	}
	w.prefix_check = false;
	c.count(strf("sweep.family%d.files", family));
	c.nontrivial = true;
	simfs()[w.name] = pristine;
	return;
    }
    if (k == "damage") {
	// seeded multi-fault damage: i = [nfaults, seed, variant, frag, bufsize, eio_at, eof_at]
	Rng r((uint64_t)op.I(1) * 7919 + 13);
	std::string d = pristine;
	int nf = (int)std::max<long>(1, op.I(0));
	std::string what;
	for (int q = 0; q < nf && !d.empty(); ++q) {
	    int kind = (int)r.below(15);
	    size_t pos = (size_t)r.below((long)d.size());
	    // number and keyword damage lands on a header line (keyword lines of NPD / Touchstone 2, the first lines of a
	    // calibration file) half of the time: that is where a few numbers steer everything that follows
	    if ((kind == 8 || kind == 11 || kind == 12) && r.chance(0.5)) {
		std::vector<size_t> heads;
		size_t line = 0;
		for (size_t b = 0; b < d.size(); b = d.find('\n', b) == std::string::npos ? d.size() : d.find('\n', b) + 1, ++line)
		    if (d[b] == '#' || d[b] == '[' || d[b] == '!' || line < 12) heads.push_back(b);
		if (!heads.empty()) pos = heads[(size_t)r.below((long)heads.size())];
	    }
	    switch (kind) {
	    case 0: d[pos] ^= (char)(1 << r.below(8)); what += strf("bitflip@%zu ", pos); break;
	    case 1: d.insert(pos, 1, (char)r.below(256)); what += strf("insert@%zu ", pos); break;
	    case 2: d.erase(pos, 1); what += strf("delete@%zu ", pos); break;
	    case 3: { size_t len = (size_t)r.range(16, 512); for (size_t z = pos; z < pos + len && z < d.size(); ++z) d[z] = 0; what += strf("zero@%zu+%zu ", pos, len); break; }
	    case 4: { size_t len = std::min((size_t)r.range(16, 256), d.size() - pos); d.insert(pos, d.substr(pos, len)); what += strf("dupblock@%zu+%zu ", pos, len); break; }
	    case 5: {	// delete a line
		size_t b = d.rfind('\n', pos); b = b == std::string::npos ? 0 : b + 1; size_t e2 = d.find('\n', pos); e2 = e2 == std::string::npos ? d.size() : e2 + 1; d.erase(b, e2 - b); what += strf("delline@%zu ", b); break; }
	    case 6: {	// duplicate a line
		size_t b = d.rfind('\n', pos); b = b == std::string::npos ? 0 : b + 1; size_t e2 = d.find('\n', pos); e2 = e2 == std::string::npos ? d.size() : e2 + 1; d.insert(b, d.substr(b, e2 - b)); what += strf("dupline@%zu ", b); break; }
	    case 7: {	// swap two tokens
		auto tok = [&](size_t p, size_t &b, size_t &e3) { b = p; while (b > 0 && !isspace((unsigned char)d[b - 1])) --b; e3 = p; while (e3 < d.size() && !isspace((unsigned char)d[e3])) ++e3; };
		size_t b1, e1, b2, e2; tok(pos, b1, e1); size_t p2 = (size_t)r.below((long)d.size()); tok(p2, b2, e2);
		if (e1 <= b2) { std::string t1 = d.substr(b1, e1 - b1), t2 = d.substr(b2, e2 - b2); d.replace(b2, e2 - b2, t1); d.replace(b1, e1 - b1, t2); what += "swaptok "; }
		break; }
	    case 8: {	// perturb a number
		size_t b = pos; while (b < d.size() && !isdigit((unsigned char)d[b])) ++b;
		if (b < d.size()) { static const char *rep[] = {"0", "-1", "99999999999", "1e999", "-1e-999", "nan", "inf", "0x1p+0", "1.5", "", "2147483647", "2000000000", "1001", "65536", "7000", "-7000", "1e308", "1e-320"}; size_t e2 = b; while (e2 < d.size() && (isdigit((unsigned char)d[e2]) || d[e2] == '.')) ++e2; d.replace(b, e2 - b, rep[r.below(18)]); what += strf("number@%zu ", b); }
		break; }
	    case 10: {	// YAML node-type substitution / value replacement after a ':' (or after "- ")
		size_t b = d.find_first_of(":-", pos);
		if (b != std::string::npos) {
		    size_t e2 = d.find('\n', b); if (e2 == std::string::npos) e2 = d.size();
		    static const char *rep[] = {" [1, 2]", " {a: 1}", " ~", " !!binary x", " &a 1", " *a", " |\n      text", "", " - - 1", " 1 2j 3", " +1e+00", " \"q\"", " : :"};
		    d.replace(b + 1, e2 - b - 1, rep[r.below(13)]);
		    what += strf("yamlnode@%zu ", b);
		}
		break; }
	    case 11:
	    case 12: {	// keyword substitution
		static const char *words[] = {"T8", "U8", "TE10", "UE10", "T16", "U16", "UE14", "E12", "S", "Z", "Y", "T", "U", "H", "G", "A", "B", "Zin", "RI", "MA", "DB", "Hz", "kHz", "MHz", "GHz", "R",
		    "[Version]", "[Number of Ports]", "[Two-Port Order]", "[Number of Frequencies]", "[Number of Noise Frequencies]", "[Matrix Format]", "[Reference]", "[Network Data]", "[Noise Data]", "[End]", "[Mixed-Mode Order]", "[Begin Information]", "[End Information]",
		    "Full", "Lower", "Upper", "12_21", "21_12", "#:ports", "#:rows", "#:columns", "#:frequencies", "#:parameters", "#:z0", "#:fprecision", "#:dprecision", "#:version", "PER-FREQUENCY", "#NPD", "#",
		    "name:", "type:", "rows:", "columns:", "frequencies:", "z0:", "data:", "f:", "e:", "ts:", "ti:", "tx:", "tm:", "um:", "ui:", "ux:", "us:", "el:", "er:", "et:", "em:", "properties:", "calibrations:", "sets:", "---", "...", "1.0", "2.0", "2.1", "3", "4", "1"};
		const int nw = (int)(sizeof words / sizeof words[0]);
		size_t b = pos; while (b > 0 && !isspace((unsigned char)d[b - 1])) --b;
		size_t e2 = pos; while (e2 < d.size() && !isspace((unsigned char)d[e2])) ++e2;
		if (kind == 12 && d[b] == '[') { size_t cl = d.find(']', b); if (cl != std::string::npos) e2 = cl + 1; }
		d.replace(b, e2 - b, words[r.below(nw)]);
		what += strf("keyword@%zu ", b);
		break; }
	    case 13:
	    case 14: {	// insert a complete, well-formed line of one of the formats, indented like the line it lands before
		static const char *lines[] = {"type: T8", "type: U8", "type: TE10", "type: UE10", "type: T16", "type: U16", "type: UE14", "type: E12", "rows: 2", "columns: 2", "rows: 1", "columns: 1",
		    "frequencies: 1", "z0: 50 0j", "name: x", "data: []", "properties: {a: b}", "version: 1.0", "f: 1e9", "e: []", "- f: 1e9",
		    "[Reference] 50 75", "[Matrix Format] Lower", "[Matrix Format] Upper", "[Number of Ports] 3", "[Number of Ports] 2", "[Number of Frequencies] 1", "[Two-Port Order] 21_12",
		    "[Number of Noise Frequencies] 1", "[Noise Data]", "[Network Data]", "[End]", "[Version] 2.0", "[Version] 1.0", "# GHz Y MA R 75", "# Hz S RI",
		    "#:ports 3", "#:rows 2", "#:columns 2", "#:frequencies 1", "#:z0 PER-FREQUENCY", "#:z0 50 0 75 0", "#:parameters Sri", "#:parameters", "#:fprecision 3", "#:dprecision 3", "#:version 1.0", "#NPD",
		    "- 1", "? [a]: b", "k: &x y", "k2: *x", "%YAML 1.1", "---", "..."};
		const int nl = (int)(sizeof lines / sizeof lines[0]);
		size_t b = d.rfind('\n', pos); b = b == std::string::npos ? 0 : b + 1;
		size_t ind = b; while (ind < d.size() && d[ind] == ' ') ++ind;
		std::string ins = d.substr(b, ind - b) + lines[r.below(nl)] + "\n";
		d.insert(b, ins);
		what += strf("insline@%zu ", b);
		break; }
	    default: { size_t len = (size_t)r.range(1, 64); std::string junk; for (size_t z = 0; z < len; ++z) junk += (char)r.below(256); d.replace(pos, std::min(len, d.size() - pos), junk); what += strf("random@%zu+%zu ", pos, len); }
	    }
	}
	simfs()[w.name] = d; if (getenv("VSIM_DUMP_BEFORE")) { fprintf(stderr, "---- %s before the load ----\n", w.name.c_str()); fwrite(d.data(), 1, d.size(), stderr); fprintf(stderr, "\n---- end ----\n"); }
	LoadFaults lf;
	lf.frag = op.I(3); lf.bufsize = op.I(4) == -2 ? -1 : op.I(4); lf.eio_at = op.I(5); lf.eof_at = op.I(6);
	load_and_check(w, lf, "damage: " + what, (int)op.I(2));
	c.count("damage.loads");
	c.nontrivial = true;
	simfs()[w.name] = pristine;
	return;
    }
    if (k == "raw") {	// arbitrary bytes
	Rng r((uint64_t)op.I(0) * 104729 + 1);
	std::string d;
	long len = op.I(1);
	for (long q = 0; q < len; ++q) d += (char)(r.chance(0.7) ? " \n#:[]0123456789.e-+jabcSRI"[r.below(27)] : r.below(256));
	if (op.I(2)) d = pristine.substr(0, std::min<size_t>(pristine.size(), (size_t)op.I(3))) + d;
	simfs()[w.name] = d;
	load_and_check(w, LoadFaults(), "random bytes", (int)op.I(4));
	c.nontrivial = true;
	simfs()[w.name] = pristine;
	return;
    }
}

static void corrupt_run(Ctx &c, const Plan &plan)
{
    CWorld w(c);
    w.cb = plan.cfg.geti("callback", 1) != 0;
    for (size_t k = 0; k < plan.ops.size() && !c.violated; ++k) { c.cur_op = (long)k; run_op(w, plan.ops[k]); }
    c.cur_op = (long)plan.ops.size();
    if (!c.violated) check_ledger_empty(c, "end of run");
}

} // namespace

Plan corrupt_gen(const std::string &check, const std::string &tier, uint64_t seed, long run)
{
    Rng rng(hash_mix(hash_mix(seed, fnv1a(check)), (uint64_t)run));
    Plan plan;
    bool enumerate = check.find("enum") != std::string::npos;
    plan.cfg["callback"] = rng.chance(0.8) ? 1 : 0;
    if (check.compare(0, 3, "C11") == 0) plan.cfg["c11"] = 1;
    auto mk = [](const char *k, std::initializer_list<long> i) { Op o; o.k = k; o.i = i; return o; };
    // corpus file
    int kind = (int)rng.below(13);
    if (kind >= 10) plan.ops.push_back(mk("mktext", {(long)rng.below(N_CORPUS_TEXT)}));
    else if (kind < 6) {
	int t, R, C;
	double u = rng.uni();
	if (u < 0.5) { t = rng.pick(std::vector<int>{VPT_S, VPT_Z, VPT_Y}); R = C = (int)rng.range(1, 4); }
	else if (u < 0.9) { t = (int)rng.range(1, 9); R = C = 2; }
	else { t = VPT_ZIN; R = 1; C = (int)rng.range(1, 3); }
	int F = (int)rng.range(1, 3);
	int fk = (int)rng.below(3);
	std::string name = fk == 0 ? strf("c.s%dp", C) : fk == 1 ? "c.ts" : "c.npd";
	std::string fmt;
	if (fk == 2 && rng.chance(0.6)) fmt = rng.pick(std::vector<std::string>{"Sri,Zinma", "Sma", "SdB,IL,RL,VSWR", "Zri,PRC", "Zinri,SRL", "Yma,Hri"});
	else if (fk != 2 && rng.chance(0.5)) fmt = rng.pick(std::vector<std::string>{"Sma", "SdB", "Zri", "Yma", "Sri"});
	Op o = mk("mkdata", {t, R, C, F, (long)rng.below(100000), (long)rng.below(5), rng.chance(0.3) ? 1000 : (long)rng.range(3, 9), rng.chance(0.3) ? 1000 : (long)rng.range(4, 9)});
	o.s = {name, fmt};
	plan.ops.push_back(o);
    } else if (kind < 8) plan.ops.push_back(mk("mkcal", {(long)rng.below(8), (long)rng.range(1, 2), (long)rng.range(1, 2), (long)rng.range(1, 2), (long)rng.below(100000), rng.chance(0.3) ? 1000 : 6}));
    else plan.ops.push_back(mk("mktree", {(long)rng.below(100000), (long)rng.range(1, 10)}));
    if (enumerate) {
	int family = (int)(run % 3);
	// every offset; files are small (<= ~2 KiB by construction)
	plan.ops.push_back(mk("sweep", {family, 0, -1, 1, (long)rng.below(4)}));
	return plan;
    }
    int n = (int)rng.range(3, 25);
    for (int q = 0; q < n; ++q) {
	if (rng.chance(0.85)) plan.ops.push_back(mk("damage", {(long)(rng.chance(0.6) ? 1 : rng.range(2, 5)), (long)rng.below(1000000000), (long)rng.below(4), rng.chance(0.5) ? 0 : rng.pick(std::vector<long>{1, 2, 3, 7}), rng.chance(0.5) ? -2 : rng.pick(std::vector<long>{0, 1, 7, 64}), rng.chance(0.9) ? -1 : (long)rng.below(800), rng.chance(0.9) ? -1 : (long)rng.below(800)}));
	else plan.ops.push_back(mk("raw", {(long)rng.below(1000000000), (long)rng.range(0, 300), rng.chance(0.5) ? 1 : 0, (long)rng.below(200), (long)rng.below(2)}));
    }
    return plan;
}
static EngineReg reg_corrupt(Engine{"corrupt", corrupt_gen, corrupt_run});
