// Independent readers of Touchstone 1.x / 2.0 and NPD text, written from the format
// descriptions (Touchstone File Format Specification 1.1 / 2.0; NPD: the header lines
// "#:<keyword> <arguments>" followed by white-space separated numeric columns).  They share
// no code with libvna's loaders and are used as the oracle for what a saved file denotes.
#pragma once
#include <cctype>
#include <cmath>
#include <complex>
#include <string>
#include <vector>
#include <cstdlib>
#include <cstring>

typedef std::complex<double> rzc;

struct TsFile {
    bool ok = false;
    std::string error;
    int version = 1;
    char param = 'S';
    std::string fmt = "MA";
    double funit = 1e9;		// Touchstone default: GHz
    double R = 50.0;
    int ports = 0;
    int nfreq_declared = -1;
    bool order_21_12 = true;	// v1 two-port order; v2 default 12_21 unless stated
    std::vector<double> reference;	// v2 [Reference]
    std::vector<double> freq;	// Hz
    std::vector<std::vector<rzc>> data;	// [f][ports*ports], row-major, as stored (not un-normalised)
    std::vector<std::vector<std::pair<double, double>>> raw;	// the two numbers of every cell as written
    bool saw_end = false;
};

static inline std::string rd_upper(std::string s) { for (auto &c : s) c = (char)toupper((unsigned char)c); return s; }

static inline bool rd_number(const std::string &tok, double &v)
{
    if (tok.empty()) return false;
    char *end;
    v = strtod(tok.c_str(), &end);
    return *end == '\0';
}

static inline rzc rd_decode(const std::string &fmt, double a, double b)
{
    if (fmt == "RI") return rzc(a, b);
    double ang = b * M_PI / 180.0;
    double mag = fmt == "DB" ? pow(10.0, a / 20.0) : a;
    return rzc(mag * cos(ang), mag * sin(ang));
}

// ports_hint: from the file name (.sNp), or -1
static inline TsFile read_touchstone(const std::string &text, int ports_hint)
{
    TsFile t;
    std::vector<std::vector<std::string>> lines;	// token lines, comments stripped
    {
	size_t pos = 0;
	while (pos <= text.size()) {
	    size_t nl = text.find('\n', pos);
	    std::string line = text.substr(pos, nl == std::string::npos ? std::string::npos : nl - pos);
	    pos = nl == std::string::npos ? text.size() + 1 : nl + 1;
	    size_t bang = line.find('!');
	    if (bang != std::string::npos) line.resize(bang);
	    std::vector<std::string> toks;
	    size_t i = 0;
	    while (i < line.size()) {
		while (i < line.size() && isspace((unsigned char)line[i])) ++i;
		if (i >= line.size()) break;
		size_t j = i;
		if (line[i] == '[') { while (j < line.size() && line[j] != ']') ++j; if (j < line.size()) ++j; }
		else while (j < line.size() && !isspace((unsigned char)line[j])) ++j;
		toks.push_back(line.substr(i, j - i));
		i = j;
	    }
	    if (!toks.empty()) lines.push_back(toks);
	}
    }
    bool have_option = false, in_data = false, v2 = false, explicit_order = false;
    std::vector<double> numbers;	// all numeric data of the network-data section
    std::vector<size_t> line_counts;	// numbers per data line (v1 record inference)
    bool in_reference = false;
    for (auto &toks : lines) {
	std::string k = rd_upper(toks[0]);
	if (k[0] == '[') {
	    in_reference = false;
	    std::string kw;
	    for (char ch : k) if (!isspace((unsigned char)ch)) kw += ch;
	    if (kw == "[VERSION]") { v2 = true; t.version = 2; if (toks.size() < 2 || toks[1] != "2.0") { t.error = "unsupported [Version]"; return t; } }
	    else if (kw == "[NUMBEROFPORTS]") { if (toks.size() < 2) { t.error = "ports"; return t; } t.ports = atoi(toks[1].c_str()); }
	    else if (kw == "[TWO-PORTORDER]" || kw == "[TWO-PORTDATAORDER]") { if (toks.size() < 2) { t.error = "order"; return t; } explicit_order = true; t.order_21_12 = rd_upper(toks[1]) == "21_12"; }
	    else if (kw == "[NUMBEROFFREQUENCIES]") { if (toks.size() < 2) { t.error = "nfreq"; return t; } t.nfreq_declared = atoi(toks[1].c_str()); }
	    else if (kw == "[REFERENCE]") {
		in_reference = true;
		for (size_t i = 1; i < toks.size(); ++i) { double v; if (!rd_number(toks[i], v)) { t.error = "bad [Reference] value"; return t; } t.reference.push_back(v); }
	    }
	    else if (kw == "[MATRIXFORMAT]") { if (toks.size() >= 2 && rd_upper(toks[1]) != "FULL") { t.error = "matrix format not Full"; return t; } }
	    else if (kw == "[NETWORKDATA]") in_data = true;
	    else if (kw == "[END]") { t.saw_end = true; in_data = false; }
	    else if (kw == "[NOISEDATA]") in_data = false;
	    continue;
	}
	if (k[0] == '#') {
	    if (have_option) continue;	// later option lines are ignored
	    have_option = true;
	    std::vector<std::string> o(toks.begin(), toks.end());
	    if (o[0].size() > 1) o[0] = o[0].substr(1); else o.erase(o.begin());
	    for (size_t i = 0; i < o.size(); ++i) {
		std::string u = rd_upper(o[i]);
		if (u == "HZ") t.funit = 1; else if (u == "KHZ") t.funit = 1e3; else if (u == "MHZ") t.funit = 1e6; else if (u == "GHZ") t.funit = 1e9;
		else if (u == "S" || u == "Y" || u == "Z" || u == "H" || u == "G") t.param = u[0];
		else if (u == "DB" || u == "MA" || u == "RI") t.fmt = u;
		else if (u == "R") { if (i + 1 >= o.size() || !rd_number(o[i + 1], t.R)) { t.error = "bad R"; return t; } ++i; }
		else { t.error = "unknown option " + u; return t; }
	    }
	    if (!v2) in_data = true;
	    continue;
	}
	if (in_reference) {
	    bool all = true;
	    for (auto &s : toks) { double v; if (!rd_number(s, v)) { all = false; break; } t.reference.push_back(v); }
	    if (all) continue;
	    t.error = "bad [Reference] continuation";
	    return t;
	}
	if (!in_data) { if (t.saw_end) continue; t.error = "data outside the network data section: " + toks[0]; return t; }
	size_t n = 0;
	for (auto &s : toks) { double v; if (!rd_number(s, v)) { t.error = "bad number " + s; return t; } numbers.push_back(v); ++n; }
	line_counts.push_back(n);
    }
    if (!have_option) { t.error = "no option line"; return t; }
    if (v2 && !explicit_order) t.order_21_12 = false;
    if (v2 && t.ports <= 0) { t.error = "no [Number of Ports]"; return t; }
    if (!v2) {
	t.ports = ports_hint;
	if (t.ports <= 0) {
	    // a line with an odd number of values starts a frequency record
	    size_t cnt = 0;
	    for (size_t i = 0; i < line_counts.size(); ++i) { if (i > 0 && line_counts[i] % 2 == 1) break; cnt += line_counts[i]; }
	    if (cnt < 3) { t.error = "cannot infer ports"; return t; }
	    double nn = sqrt((double)(cnt - 1) / 2.0);
	    t.ports = (int)floor(nn + 0.5);
	}
    }
    size_t per = 1 + 2 * (size_t)t.ports * t.ports;
    if (numbers.size() % per != 0) { t.error = "network data is not a whole number of frequency records"; return t; }
    size_t nf = numbers.size() / per;
    if (v2 && t.nfreq_declared >= 0 && (size_t)t.nfreq_declared != nf) { t.error = "[Number of Frequencies] does not match the data"; return t; }
    if (v2 && !t.reference.empty() && (int)t.reference.size() != t.ports) { t.error = "[Reference] count differs from ports"; return t; }
    int P = t.ports;
    for (size_t f = 0; f < nf; ++f) {
	const double *p = &numbers[f * per];
	t.freq.push_back(p[0] * t.funit);
	std::vector<rzc> m((size_t)P * P);
	std::vector<std::pair<double, double>> rw((size_t)P * P);
	for (int q = 0; q < P * P; ++q) {
	    rzc v = rd_decode(t.fmt, p[1 + 2 * q], p[2 + 2 * q]);
	    int r = q / P, c = q % P;
	    if (P == 2 && t.order_21_12) std::swap(r, c);	// stored 11 21 12 22
	    m[(size_t)r * P + c] = v;
	    rw[(size_t)r * P + c] = std::make_pair(p[1 + 2 * q], p[2 + 2 * q]);
	}
	t.data.push_back(m);
	t.raw.push_back(rw);
    }
    t.ok = true;
    return t;
}

struct NpdFile {
    bool ok = false;
    std::string error;
    std::string version;
    int ports = -1, frequencies = -1;
    std::vector<std::string> parameters;	// specifiers as written
    bool per_frequency_z0 = false;
    std::vector<rzc> z0;
    int fprecision = -1, dprecision = -1;
    std::vector<std::vector<double>> rows;	// numeric columns of every data line
};

static inline bool rd_complex_j(const std::string &re, const std::string &im, rzc &out)
{
    double a, b;
    if (!rd_number(re, a)) return false;
    if (im.empty() || (im.back() != 'j' && im.back() != 'J')) return false;
    if (!rd_number(im.substr(0, im.size() - 1), b)) return false;
    out = rzc(a, b);
    return true;
}

static inline NpdFile read_npd(const std::string &text)
{
    NpdFile n;
    size_t pos = 0;
    bool first = true;
    while (pos < text.size()) {
	size_t nl = text.find('\n', pos);
	std::string line = text.substr(pos, nl == std::string::npos ? std::string::npos : nl - pos);
	pos = nl == std::string::npos ? text.size() : nl + 1;
	std::vector<std::string> toks;
	size_t i = 0;
	while (i < line.size()) {
	    while (i < line.size() && isspace((unsigned char)line[i])) ++i;
	    if (i >= line.size()) break;
	    size_t j = i;
	    while (j < line.size() && !isspace((unsigned char)line[j])) ++j;
	    toks.push_back(line.substr(i, j - i));
	    i = j;
	}
	if (first) {
	    first = false;
	    if (toks.empty() || toks[0] != "#NPD") { n.error = "missing #NPD"; return n; }
	    continue;
	}
	if (toks.empty()) continue;
	if (toks[0][0] == '#') {
	    if (toks[0].compare(0, 2, "#:") != 0) continue;	// plain comment
	    std::string kw = toks[0].substr(2);
	    if (kw == "version") { if (toks.size() > 1) n.version = toks[1]; }
	    else if (kw == "ports") { if (toks.size() < 2) { n.error = "ports"; return n; } n.ports = atoi(toks[1].c_str()); }
	    else if (kw == "frequencies") { if (toks.size() < 2) { n.error = "frequencies"; return n; } n.frequencies = atoi(toks[1].c_str()); }
	    else if (kw == "parameters") {
		std::string all;
		for (size_t k = 1; k < toks.size(); ++k) all += toks[k];
		size_t p = 0;
		while (p <= all.size()) {
		    size_t c = all.find(',', p);
		    std::string s = all.substr(p, c == std::string::npos ? std::string::npos : c - p);
		    if (!s.empty()) n.parameters.push_back(s);
		    if (c == std::string::npos) break;
		    p = c + 1;
		}
	    }
	    else if (kw == "z0") {
		if (toks.size() >= 2 && rd_upper(toks[1]) == "PER-FREQUENCY") n.per_frequency_z0 = true;
		else {
		    if ((toks.size() - 1) % 2) { n.error = "z0 line"; return n; }
		    for (size_t k = 1; k + 1 < toks.size(); k += 2) { rzc z; if (!rd_complex_j(toks[k], toks[k + 1], z)) { n.error = "z0 value"; return n; } n.z0.push_back(z); }
		}
	    }
	    else if (kw == "fprecision") { if (toks.size() > 1) n.fprecision = rd_upper(toks[1]) == "MAX" ? 1000 : atoi(toks[1].c_str()); }
	    else if (kw == "dprecision") { if (toks.size() > 1) n.dprecision = rd_upper(toks[1]) == "MAX" ? 1000 : atoi(toks[1].c_str()); }
	    continue;
	}
	std::vector<double> row;
	for (auto &s : toks) { double v; if (!rd_number(s, v)) { n.error = "bad number " + s; return n; } row.push_back(v); }
	n.rows.push_back(row);
    }
    if (n.ports < 0) { n.error = "no #:ports"; return n; }
    if (n.frequencies >= 0 && (int)n.rows.size() != n.frequencies) { n.error = "#:frequencies does not match the number of data lines"; return n; }
    n.ok = true;
    return n;
}
