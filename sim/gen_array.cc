// Plan generator of the array engine (C15, C05, C06 workloads).
#include "core.h"
#include "arraymodel.h"
#include "array_common.h"

void array_gen_file_ops(Rng &rng, Plan &plan, ArrayModel *m, const std::string &check, bool thorough);

namespace {

struct AGen {
    Rng rng;
    ArrayModel m[NOBJ];
    int maxdim = 4, maxf = 4;
    double p_bad = 0.1;
    explicit AGen(uint64_t s) : rng(s) {}

    int idx(int n) {	// index class {-1, 0, n-1, n, n+1, valid}
	double u = rng.uni();
	if (u < 1 - p_bad || p_bad == 0) return n > 0 ? (int)rng.below(n) : (rng.chance(0.5) ? 0 : -1);
	double v = rng.uni();
	return v < 0.25 ? -1 : v < 0.65 ? n : v < 0.85 ? n + 1 : n + (int)rng.range(2, 5);
    }
    int vidx(int n) { return n > 0 ? (int)rng.below(n) : 0; }
    void dims_for(int type, int &R, int &C) {
	switch (type) {
	case VPT_S: case VPT_Z: case VPT_Y: R = C = (int)rng.range(rng.chance(0.1) ? 0 : 1, maxdim); break;
	case VPT_T: case VPT_U: case VPT_H: case VPT_G: case VPT_A: case VPT_B: R = C = 2; break;
	case VPT_ZIN: R = 1; C = (int)rng.range(rng.chance(0.1) ? 0 : 1, maxdim); break;
	default: R = (int)rng.range(0, maxdim); C = (int)rng.range(0, maxdim); break;
	}
    }
    Op mk(const char *k, std::initializer_list<long> i) { Op o; o.k = k; o.i = i; return o; }
};

} // namespace

Plan array_gen(const std::string &check, const std::string &tier, uint64_t seed, long run)
{
    AGen g(hash_mix(hash_mix(seed, fnv1a(check)), (uint64_t)run));
    Rng &rng = g.rng;
    Plan plan;
    bool thorough = tier == "thorough";
    std::string id = check.substr(0, 3);
    bool c05 = id == "C05", c06 = id == "C06" || check.find("files") != std::string::npos, c11 = id == "C11";
    bool c12 = id == "C12";
    g.maxdim = (int)rng.range(2, 5);
    g.maxf = (int)rng.range(1, 6);
    g.p_bad = rng.chance(0.25) ? 0 : rng.chance(0.5) ? 0.1 : 0.3;
    if (c11) { g.p_bad = rng.chance(0.5) ? 0.45 : 0.25; plan.cfg["c11"] = 1; }
    if (c05 || c06) g.p_bad = rng.chance(0.5) ? 0 : 0.08;
    if (c12) { g.p_bad = 0; plan.cfg["strict_enomem"] = 1; }
    bool faults = check.find("faulty") != std::string::npos;
    double p_fault = faults ? (rng.chance(0.5) ? 0.02 : 0.1) : 0;
    plan.cfg["callback"] = rng.chance(0.8) ? 1 : 0;
    plan.cfg["maxdim"] = g.maxdim;
    plan.cfg["maxf"] = g.maxf;
    plan.cfg["p_bad"] = g.p_bad;
    plan.cfg["p_fault"] = p_fault;
    // half of the fault-injecting runs do not re-issue a call that failed because of its fault
    if (check.find("noretry") != std::string::npos || (faults && rng.chance(0.5))) plan.cfg["no_retry"] = 1;
    plan.cfg["read_frag"] = rng.chance(0.5) ? 0L : rng.pick(std::vector<long>{1, 2, 3, 7, 64});
    plan.cfg["bufsize"] = rng.chance(0.5) ? -1L : rng.pick(std::vector<long>{0, 1, 7, 64, 4096});
    int ntasks = (int)rng.range(1, 3);
    plan.cfg["tasks"] = ntasks;
    long nops;
    {
	double u = rng.uni();
	long cap = thorough ? 300 : 150;
	nops = u < 0.5 ? rng.range(3, 15) : u < 0.85 ? rng.range(15, 60) : rng.range(60, cap);
	if (c05) nops = rng.range(3, 40);
	if (c12) nops = rng.range(4, 20);
    }
    if (c06) { array_gen_file_ops(rng, plan, g.m, check, thorough); return plan; }

    struct W { const char *k; double w; };
    std::vector<W> weights = {
	{"init", 8}, {"resize", 14}, {"settype", 4}, {"addf", 5}, {"setf", 3}, {"getf", 2}, {"setfv", 2}, {"fminmax", 1},
	{"setc", 8}, {"getc", 4}, {"setm", 6}, {"getm", 2}, {"setv", 3}, {"getv", 2},
	{"z0set", 5}, {"z0get", 3}, {"z0all", 2}, {"z0vset", 3}, {"fz0set", 5}, {"fz0get", 3}, {"fz0vset", 3}, {"fz0vget", 2},
	{"conv", 5}, {"realloc", 1}, {"typename", 0.5}};
    if (c05) weights = {{"init", 6}, {"fill", 12}, {"resize", 8}, {"conv", 40}, {"chain", 8}, {"z0set", 3}, {"z0vset", 5}, {"fz0set", 3},
	{"fz0vset", 6}, {"z0all", 1}, {"setm", 3}, {"settype", 2}};
    for (auto &w : weights) if (rng.chance(0.15) && strcmp(w.k, "init") && strcmp(w.k, "conv")) w.w = 0;
    double wsum = 0;
    for (auto &w : weights) wsum += w.w;

    // start every object with some shape so that early operations are not all refusals
    for (int o = 0; o < NOBJ; ++o) {
	if (rng.chance(0.2)) continue;
	int t = (int)rng.below(VPT_NTYPES), R, C;
	g.dims_for(t, R, C);
	int F = (int)rng.range(rng.chance(0.1) ? 0 : 1, g.maxf);
	plan.ops.push_back(g.mk("init", {o, t, R, C, F}));
	g.m[o].init(t, R, C, F);
	if (c05 || rng.chance(0.5)) { long sd = (long)rng.below(1000000); plan.ops.push_back(g.mk("fill", {o, sd, c05 ? 0 : (long)rng.below(3)})); }
    }
    std::vector<int> task_obj(ntasks);
    for (int t = 0; t < ntasks; ++t) task_obj[t] = (int)rng.below(rng.chance(0.5) ? 1 : NOBJ);

    for (long n = 0; n < nops; ++n) {
	int task = (int)rng.below(ntasks);
	int o = task_obj[task];
	if (rng.chance(0.15)) o = (int)rng.below(NOBJ);
	ArrayModel &m = g.m[o];
	double u = rng.uni() * wsum;
	std::string k = "init";
	for (auto &w : weights) { if (u < w.w) { k = w.k; break; } u -= w.w; }
	Op op;
	bool can_fault = false;
	if (k == "init" || k == "resize") {
	    int t, R, C, F;
	    bool bad = rng.chance(g.p_bad);
	    if (k == "resize" && rng.chance(0.5)) {
		// vary one dimension of the current shape
		t = m.type; R = m.R; C = m.C; F = m.F;
		int which = (int)rng.below(3);
		int delta = rng.chance(0.5) ? 1 : -1;
		if (rng.chance(0.2)) delta *= 2;
		if (which == 0) F = std::max(0, std::min(g.maxf + 1, F + delta));
		else if (t == VPT_UNDEF) { if (which == 1) R = std::max(0, R + delta); else C = std::max(0, C + delta); }
		else if (ArrayModel::is_szy(t)) { R = C = std::max(0, R + delta); }
		else if (t == VPT_ZIN) C = std::max(0, C + delta);
		else F = std::max(0, F + delta);
		if (R > 6) R = 6;
		if (C > 6) C = 6;
	    } else {
		t = (int)rng.below(VPT_NTYPES);
		g.dims_for(t, R, C);
		F = (int)rng.range(0, g.maxf);
	    }
	    if (bad) {
		double v = rng.uni();
		if (v < 0.3) { t = rng.pick(std::vector<int>{VPT_S, VPT_Z, VPT_Y}); R = (int)rng.range(1, 3); C = R + 1; }
		else if (v < 0.5) { t = rng.pick(std::vector<int>{VPT_T, VPT_A, VPT_H}); R = C = 3; }
		else if (v < 0.6) { t = VPT_ZIN; R = 2; C = 2; }
		else if (v < 0.7) R = -1;
		else if (v < 0.8) C = -1;
		else if (v < 0.9) F = -1;
		else t = rng.chance(0.5) ? VPT_NTYPES : -1;
	    }
	    op = g.mk(k.c_str(), {o, t, R, C, F});
	    bool valid = R >= 0 && C >= 0 && F >= 0 && ArrayModel::dims_ok(t, R, C);
	    if (valid) { if (k == "init") m.init(t, R, C, F); else m.resize(t, R, C, F); }
	    else if (k == "init") { m.resize(VPT_UNDEF, 0, 0, 0); m.to_simple(); }
	    can_fault = valid;
	} else if (k == "settype") {
	    int t = (int)rng.below(VPT_NTYPES);
	    if (rng.chance(g.p_bad)) t = rng.chance(0.5) ? -1 : VPT_NTYPES + (int)rng.below(3);
	    op = g.mk("settype", {o, t});
	    if (ArrayModel::dims_ok(t, m.R, m.C)) m.type = t;
	} else if (k == "addf") {
	    op = g.mk("addf", {o});
	    double f = rng.chance(g.p_bad) ? -1.0 - rng.uni() : (m.F ? m.freq[m.F - 1] : 0) + 1e6 * rng.uni();
	    if (rng.chance(0.05)) f = 0.0;
	    op.d = {f};
	    if (!(f < 0)) { m.resize(m.type, m.R, m.C, m.F + 1); m.freq[m.F - 1] = f; }
	    can_fault = !(f < 0);
	} else if (k == "setf" || k == "getf") {
	    int fi = g.idx(m.F);
	    op = g.mk(k.c_str(), {o, fi});
	    op.d = {1e6 * (1 + rng.below(1000))};
	    if (k == "setf" && fi >= 0 && fi < m.F) m.freq[fi] = op.d[0];
	} else if (k == "setfv") {
	    long sd = (long)rng.below(1000000); int cls = rng.chance(0.7) ? 0 : 1;
	    op = g.mk("setfv", {o, sd, cls});
	    for (int f = 0; f < m.F; ++f) m.freq[f] = gen_freq(sd, f, cls);
	} else if (k == "fminmax") op = g.mk("fminmax", {o});
	else if (k == "setc" || k == "getc") {
	    int fi = g.idx(m.F), r = g.idx(m.R), c = g.idx(m.C);
	    // one bad index at a time is the interesting case
	    if (rng.chance(0.7)) { int bad = 0; if (fi < 0 || fi >= m.F) ++bad; if (bad && rng.chance(0.8)) { r = g.vidx(m.R); c = g.vidx(m.C); } else if ((r < 0 || r >= m.R) && rng.chance(0.8)) c = g.vidx(m.C); }
	    op = g.mk(k.c_str(), {o, fi, r, c});
	    zc v = gen_val((long)rng.below(1000000), 0, (int)rng.below(rng.chance(0.9) ? 3 : 4));
	    op.d = {v.real(), v.imag()};
	    if (k == "setc" && fi >= 0 && fi < m.F && r >= 0 && r < m.R && c >= 0 && c < m.C) m.cell[fi][(size_t)r * m.C + c] = v;
	} else if (k == "setm" || k == "getm") {
	    int fi = g.idx(m.F);
	    long sd = (long)rng.below(1000000); int cls = (int)rng.below(rng.chance(0.9) ? 3 : 4);
	    op = g.mk(k.c_str(), {o, fi, sd, cls});
	    if (k == "setm" && fi >= 0 && fi < m.F) for (int q = 0; q < m.R * m.C; ++q) m.cell[fi][q] = gen_val(sd, q, cls);
	} else if (k == "setv" || k == "getv") {
	    int r = g.idx(m.R), c = g.idx(m.C);
	    if ((r < 0 || r >= m.R) && rng.chance(0.8)) c = g.vidx(m.C);
	    long sd = (long)rng.below(1000000); int cls = (int)rng.below(3);
	    op = g.mk(k.c_str(), {o, r, c, sd, cls});
	    if (k == "setv" && r >= 0 && r < m.R && c >= 0 && c < m.C) for (int f = 0; f < m.F; ++f) m.cell[f][(size_t)r * m.C + c] = gen_val(sd, f, cls);
	} else if (k == "z0set" || k == "z0get") {
	    int p = g.idx(m.P());
	    op = g.mk(k.c_str(), {o, p});
	    zc z = gen_z0((long)rng.below(1000000), 0, (int)rng.below(2));
	    op.d = {z.real(), z.imag()};
	    if (k == "z0set" && p >= 0 && p < m.P()) { can_fault = m.per_f; m.to_simple(); m.z0[p] = z; }
	} else if (k == "z0all") {
	    op = g.mk("z0all", {o});
	    zc z = gen_z0((long)rng.below(1000000), 0, (int)rng.below(4));
	    op.d = {z.real(), z.imag()};
	    can_fault = m.per_f;
	    m.to_simple(); for (auto &x : m.z0) x = z;
	} else if (k == "z0vset") {
	    long sd = (long)rng.below(1000000); int cls = (int)rng.below(4);
	    op = g.mk("z0vset", {o, sd, cls});
	    can_fault = m.per_f;
	    m.to_simple(); for (int p = 0; p < m.P(); ++p) m.z0[p] = gen_z0(sd, p, cls);
	} else if (k == "fz0set" || k == "fz0get") {
	    int fi = g.idx(m.F), p = g.idx(m.P());
	    if ((fi < 0 || fi >= m.F) && rng.chance(0.8)) p = g.vidx(m.P());
	    op = g.mk(k.c_str(), {o, fi, p});
	    zc z = gen_z0((long)rng.below(1000000), 0, (int)rng.below(2));
	    op.d = {z.real(), z.imag()};
	    if (k == "fz0set" && fi >= 0 && fi < m.F && p >= 0 && p < m.P()) { can_fault = !m.per_f; m.to_perf(); m.fz0[fi][p] = z; }
	} else if (k == "fz0vset" || k == "fz0vget") {
	    int fi = g.idx(m.F);
	    long sd = (long)rng.below(1000000); int cls = (int)rng.below(4);
	    op = g.mk(k.c_str(), {o, fi, sd, cls});
	    if (k == "fz0vset" && fi >= 0 && fi < m.F) { can_fault = !m.per_f; m.to_perf(); for (int p = 0; p < m.P(); ++p) m.fz0[fi][p] = gen_z0(sd, p, cls); }
	} else if (k == "fill") {
	    long sd = (long)rng.below(1000000);
	    op = g.mk("fill", {o, sd, 0});
	    for (int f = 0; f < m.F; ++f) { m.cell[f] = gen_network(m.type, m.R, m.C, sd, f, 0, m.z0_at(f)); m.freq[f] = gen_freq(sd, f, 0); }
	} else if (k == "conv") {
	    int oo = rng.chance(0.45) ? o : (int)rng.below(NOBJ);
	    int to;
	    // mostly valid targets for the current type and shape
	    std::vector<int> ok;
	    for (int t = 0; t < VPT_NTYPES; ++t) { const ConvEntry *e; if (m.conv_valid(t, &e)) ok.push_back(t); }
	    if (!ok.empty() && !rng.chance(std::max(0.05, g.p_bad))) to = rng.pick(ok);
	    else to = rng.chance(0.9) ? (int)rng.below(VPT_NTYPES) : (rng.chance(0.5) ? -1 : VPT_NTYPES);
	    op = g.mk("conv", {o, oo, to});
	    const ConvEntry *e;
	    if (m.conv_valid(to, &e)) {
		can_fault = oo != o;
		if (oo == o) { ArrayModel a = m; a.convert(a, to); m = a; }
		else m.convert(g.m[oo], to);
	    }
	} else if (k == "chain") {
	    std::vector<int> ok;
	    for (int t = 1; t < VPT_NTYPES; ++t) { const ConvEntry *e; if (t != m.type && m.conv_valid(t, &e)) ok.push_back(t); }
	    if (ok.size() < 2) continue;
	    int tb = rng.pick(ok), tc = rng.pick(ok);
	    if (tb == VPT_ZIN) continue;
	    op = g.mk("chain", {o, tb, tc});
	} else if (k == "realloc") {
	    op = g.mk("realloc", {o, rng.chance(0.8) ? 1 : 0});
	    m = ArrayModel();
	    can_fault = true;
	} else if (k == "typename") {
	    op = g.mk("typename", {0, rng.chance(0.8) ? (long)rng.below(VPT_NTYPES) : rng.range(-2, 14)});
	}
	if (op.k.empty()) continue;
	for (int q = 0; q < NOBJ; ++q) if (!g.m[q].consistent()) { fprintf(stderr, "generator: shadow model %d inconsistent after %s: t=%d R=%d C=%d F=%d perf=%d freq=%zu cell=%zu z0=%zu fz0=%zu op=%ld,%ld,%ld\n", q, op.k.c_str(), g.m[q].type, g.m[q].R, g.m[q].C, g.m[q].F, (int)g.m[q].per_f, g.m[q].freq.size(), g.m[q].cell.size(), g.m[q].z0.size(), g.m[q].fz0.size(), op.I(0), op.I(1), op.I(2)); abort(); }
	if (op.i.size() < 10) op.i.resize(10, 0);
	op.i[9] = task;
	if (can_fault && p_fault > 0 && rng.chance(p_fault * 5)) {
	    Fault f; f.t = "alloc.vna"; f.n = rng.range(1, 4);
	    op.f.push_back(f);
	}
	plan.ops.push_back(op);
    }
    return plan;
}
