"""Registry of checks: sub-checks (engine workloads), budgets, evidence texts."""

COMPONENTS = {
    "real": [
        "all libvna library sources compiled from /repo's working tree (list re-read from src/Makefile.am), clang 14 -O1 ASan+UBSan",
        "libyaml 0.2.5 (static libyaml.a, uninstrumented)",
        "glibc stdio (FILE buffering, fprintf/getc) running on fopencookie streams",
    ],
    "stub": [
        "allocator decisions (link-time --wrap of malloc/calloc/realloc/free/strdup/strndup/vasprintf/asprintf): ledger, domain tag, injected ENOMEM",
        "SimFS: in-memory named files behind --wrap=fopen and harness-opened cookie streams; read fragmentation, EIO/EOF/ENOSPC/close faults, at-rest damage",
        "error callback sink (vnaerr_error_fn_t recorder)",
        "reference models: DocModel, ArrayModel, CalTableModel; VnaWorld physical error-network instrument; independent file readers",
        "scheduler of logical clients (seeded; API-call granularity)",
    ],
}


def B(runs, seconds, chunk=200):
    return {"runs": runs, "seconds": seconds, "chunk": chunk}


CHECKS = {
    "C13": {
        "level": "exploration",
        "rule": "plans are generated from (VERIF_SEED, check, run index) by a seeded generator that keeps a shadow model "
                "to follow existing structure; a run is non-trivial when the tree passed through >= 3 distinct states that "
                "were compared with the model; distinct = distinct plan fingerprint (hash of the full operation list)",
        "assumptions": [
            "DocModel written from vnaproperty(3); errno is not asserted for queries that reach a null node (manual is silent)",
            "state after a refused set/set_subtree is not asserted here (that clause belongs to C11): the model is re-read from the real tree",
            "descriptors with white space after an escaped key are not generated (trimming rule undocumented)",
        ],
        "expected_probes": ["set_refused", "del_refused", "query_refused"],
        "subchecks": [
            {"check": "C13", "what": "random edit/query histories on 1-3 roots, 1-3 logical editors",
             "quick": B(60000, 40), "thorough": B(2000000, 540, 500)},
        ],
    },
    "C15": {
        "level": "exploration",
        "rule": "seeded histories of init/resize/set_type/add_frequency/cell, matrix, vector, frequency and z0/fz0 accessors and conversions "
                "on three vnadata_t objects, indices from {-1,0,n-1,n,n+1,valid}; after every operation every getter of the touched "
                "objects is compared with ArrayModel; non-trivial = at least 3 distinct object states compared; distinct = plan fingerprint",
        "assumptions": [
            "ArrayModel written from vnadata(3); get_fz0/get_fz0_vector with an out-of-range frequency index in ordinary-z0 mode is not asserted (manual: index unused)",
            "errno of a refused call must be EINVAL; the callback discipline is C11's clause and is not asserted here",
            "UBSan checks vla-bound and nonnull-attribute are off: zero-length VLAs and memcpy/memset(NULL, ..., 0) are treated as defined",
        ],
        "expected_probes": ["refused", "simple_to_perf", "perf_to_simple", "inplace_to_zin"],
        "subchecks": [
            {"check": "C15", "what": "clean configuration", "quick": B(60000, 35), "thorough": B(1500000, 400, 500)},
            {"check": "C15.array.faulty", "what": "allocation failures inside growing operations, failed call re-issued",
             "quick": B(15000, 12), "thorough": B(500000, 150, 500)},
        ],
    },
    "C05": {
        "level": "exploration",
        "rule": "seeded histories concentrating on vnadata_convert: all type pairs reachable from well-conditioned networks, in place and "
                "into fresh / previously used destinations, ordinary and per-frequency z0, followed by resizes; the model applies the "
                "vnaconv function named by its own table; non-trivial = at least 3 distinct object states; distinct = plan fingerprint",
        "assumptions": [
            "vnaconv_* functions are trusted (C04 is not claimed): the model calls them through its own type-pair table",
            "cells are compared with relative tolerance 1e-9 of the matrix scale (an equivalent vnaconv routine may be used), everything else exactly",
            "A->B->C vs A->C compared at 1e-7 only for well-conditioned data; skipped (and counted) otherwise",
        ],
        "expected_probes": ["inplace_to_zin", "outofplace_convert", "convert_perf_z0", "convert_refused", "chain_compared"],
        "subchecks": [
            {"check": "C05", "what": "clean configuration", "quick": B(40000, 35), "thorough": B(1000000, 400, 500)},
            {"check": "C05.array.faulty", "what": "allocation failures inside the destination set-up",
             "quick": B(10000, 10), "thorough": B(300000, 120, 500)},
        ],
    },
    "C06": {
        "level": "exploration",
        "rule": "seeded histories: init / impedances / data / precisions / file type / format list, then cksave + save or fsave by file "
                "name, restart (all objects freed, simulated disk survives), load or fload with random read fragmentation; every "
                "successfully written file is parsed by an independent Touchstone/NPD reader and compared with the model; non-trivial "
                "= at least one file passed the independent reader or a load was compared; distinct = plan fingerprint",
        "assumptions": [
            "independent readers written from the Touchstone 1.1/2.0 specification and the NPD header keywords; vnaconv_* trusted for the expected forms",
            "tolerance per printed field 4*10^(1-p) relative (1e-12 at maximum precision in polar forms, bit-exact for rectangular "
            "forms loaded back at maximum precision), angles compared absolutely to 0.6*10^(3-max(p,3)) degrees",
            "a format list of scalar-only forms (IL, RL, VSWR) is not required to be loadable; sticky file type / format after a failed save are not asserted",
        ],
        "expected_probes": ["save_ok", "save_refused", "load_ok", "load_exact", "reader_ts1_ok", "reader_ts2_ok", "reader_npd_ok"],
        "subchecks": [
            {"check": "C06", "what": "clean configuration", "quick": B(40000, 40), "thorough": B(1200000, 500, 500)},
            {"check": "C06.array.faulty", "what": "allocation / write / close / open / read faults inside save and load",
             "quick": B(12000, 15), "thorough": B(400000, 150, 500)},
        ],
    },
    "C03": {
        "level": "exploration",
        "rule": "chaos engine: seeded call sequences over the whole vnacal / vnacal_new / parameter API (plus the vnadata and property entry "
                "points reachable through it) on live objects, every index / dimension / handle argument drawn from valid, boundary "
                "(0, n-1, n, n+1, -1) and wild classes, NULL for the documented optional arguments, rectangular and zero-frequency "
                "calibrations, allocation (libvna and libyaml domain) and stream faults attached to 0-30 % of the operations, three orders "
                "of the final free calls; plus the invalid-argument-heavy configurations of the model-based engines. Oracles: ASan, UBSan, "
                "allocation ledger after the matching free functions, failure value for every detectably invalid argument. "
                "non-trivial = >= 4 distinct operations executed or a calibration added; distinct = plan fingerprint",
        "assumptions": [
            "object pointers are always valid (the statement's premise); buffers handed to the library have exactly the stated size (exact heap blocks, so ASan sees any access past a stated count)",
            "NaN / infinite real arguments are generated but their acceptance is not judged (the manual does not say)",
            "a handle deleted after a vnacal_new_t used it stays usable in that vnacal_new_t: only handles the library never returned are required to be refused by vnacal_new_add_*",
            "UBSan checks vla-bound and nonnull-attribute are off (zero-length VLAs, memcpy(NULL, ..., 0) treated as defined); a request above 256 MiB is refused by the simulated allocator",
        ],
        "expected_probes": ["invalid_refused", "calibration_added", "applied", "loaded", "session_created", "solve_failed"],
        "subchecks": [
            {"check": "C03", "what": "chaos engine over vnacal / vnacal_new / parameters with allocation and stream faults", "quick": B(30000, 40), "thorough": B(3000000, 700, 500)},
            {"check": "C03.array.faulty", "what": "vnadata histories with boundary indices under allocation faults", "quick": B(15000, 20), "thorough": B(500000, 200, 500)},
            {"check": "C03.array.files.faulty", "what": "vnadata save / load histories under stream and allocation faults", "quick": B(5000, 20), "thorough": B(150000, 200, 200)},
            {"check": "C03.doc.faulty", "what": "property-tree histories incl. YAML export / import under allocation (both domains) and stream faults", "quick": B(15000, 20), "thorough": B(500000, 200, 500)},
            {"check": "C03.cal.store.faulty", "what": "calibration sessions, save / load under faults", "quick": B(6000, 25), "thorough": B(60000, 250, 100)},
        ],
    },
    "C11": {
        "level": "exploration",
        "rule": "failure-seeking variants of the document, array, file, calibration and damaged-file workloads: 25-50 % of the generated "
                "arguments are invalid (indices from {-1, n, n+1}, wrong types/dimensions, deleted or foreign handles, malformed "
                "descriptors, too few standards, out-of-band frequencies) and allocation / stream faults are injected into the rest; after "
                "every call the return value, errno, the recorded error-function invocations and the complete observable state are "
                "judged; non-trivial per the engine's rule (>= 3 compared states / a compared calibration / a damaged load); distinct = plan fingerprint",
        "assumptions": [
            "which calls must / must not invoke the error function is taken from vnacal(3), vnacal_new(3), vnacal_parameter(3), vnaproperty(3); "
            "vnadata(3) only refers to vnaerr(3), so for vnadata calls only the form of a report is judged (single line, category <-> errno, none on success), not its presence",
            "'exactly when the manual says' is read as: exactly one report (single line) before a failing return of a function the manual lists as reporting, none from a silent one, none (except warnings) on success",
            "vnaproperty queries that reach a node which exists but is null return -1/NULL with errno untouched (documented for get_subtree): not judged",
            "state after a call that fails late (allocation fault, damaged file) is only required to be usable (queried, re-initialised, saved, freed), as the statement says",
        ],
        "expected_probes": ["refused", "set_refused", "del_refused", "solve_after_failures", "insufficient_reported", "rejected"],
        "subchecks": [
            {"check": "C11.doc", "what": "property trees: refused set / set_subtree / delete / copy change nothing; import / export reporting", "quick": B(20000, 25), "thorough": B(600000, 250, 500)},
            {"check": "C11.array", "what": "vnadata objects: refused setters, resize, set_type, convert change no getter's answer; reporting form", "quick": B(20000, 25), "thorough": B(600000, 250, 500)},
            {"check": "C11.array.files.faulty", "what": "vnadata save / load / cksave with stream and allocation faults: destination usable, reporting form", "quick": B(6000, 25), "thorough": B(200000, 250, 200)},
            {"check": "C11.cal", "what": "parameters, sessions, standards with invalid ports / handles, add_calibration indices, silent queries", "quick": B(12000, 35), "thorough": B(120000, 400, 100)},
            {"check": "C11.cal.retry", "what": "failed solves (too few standards) retried after adding standards", "quick": B(8000, 30), "thorough": B(80000, 300, 100)},
            {"check": "C11.cal.store.faulty", "what": "vnacal save / load under stream and allocation faults: reporting, nothing left behind", "quick": B(6000, 25), "thorough": B(60000, 250, 100)},
            {"check": "C11.chaos", "what": "chaos call sequences (measurement-error model, tolerances, correlated parameters, rectangular shapes): reporting discipline of every call", "quick": B(15000, 20), "thorough": B(600000, 250, 500)},
            {"check": "C11.corrupt", "what": "damaged files: clean failure (errno, one-line report, no INTERNAL), destination still usable", "quick": B(6000, 20, 50), "thorough": B(300000, 250, 200)},
        ],
    },
    "C16": {
        "level": "exploration",
        "rule": "2-4 calibration sessions (all eight types, 1-3 ports, m and a/b forms), a parameter churner and a catalogue task are "
                "interleaved on one vnacal_t by a seeded scheduler at API-call granularity; the table of calibrations and the parameter "
                "handles are checked against a model after every catalogue operation, every applied calibration against the VnaWorld truth "
                "and against the same session run alone on a fresh vnacal_t; non-trivial = at least one calibration of a determining "
                "standard set was applied and compared; distinct = plan fingerprint",
        "assumptions": [
            "VnaWorld (physical error-network stub) produces consistent measurements; square calibrations only (1x1..3x3; 16-term up to 2x2)",
            "which free slot or handle number the library picks is not predicted: uniqueness, find/get agreement and untouched neighbours are",
            "accuracy is asserted only for standard sets that contain a textbook determining set (three separated reflects per port, a through per port pair, full matrices where leakage is modelled)",
        ],
        "expected_probes": ["replace_by_name", "cal_deleted", "param_deleted", "twin_agrees", "property_roots_separate", "refused"],
        "subchecks": [
            {"check": "C16", "what": "interleaved sessions, clean configuration", "quick": B(24000, 50), "thorough": B(300000, 700, 100)},
        ],
    },
    "C17": {
        "level": "exploration",
        "rule": "one session per run; after add_calibration the applied S-parameters are compared with a twin built from an equivalent "
                "description chosen by seed bits: standards in another order, through <-> line(0,1;1,0) <-> mapped matrix and reflects "
                "<-> mapped matrices, full <-> abbreviated measurement matrices (8-term types), common scaling of a and b, one session per "
                "frequency, E12 <-> UE14; non-trivial = a twin was compared; distinct = plan fingerprint",
        "assumptions": [
            "consistent data from VnaWorld (well-conditioned error boxes and devices); agreement required to 1e-7",
            "port renumbering twins are not generated (listed in the statement; left to the truth comparison of C16)",
        ],
        "expected_probes": ["twin_agrees", "twin_permuted", "twin_entry_points", "twin_per_frequency", "twin_e12_ue14", "twin_ab_scaled"],
        "subchecks": [
            {"check": "C17", "what": "twin descriptions", "quick": B(20000, 50), "thorough": B(250000, 700, 100)},
        ],
    },
    "C20": {
        "level": "exploration",
        "rule": "sessions accumulate standards one at a time in a scheduler-chosen order and attempt vnacal_new_solve after additions "
                "(repeatedly, also under injected allocation failures); each attempt is classified independently: fewer measured cells "
                "than in-system unknowns -> must fail with EDOM; contains a textbook determining set of known standards -> must succeed "
                "and correct an independent device; otherwise nothing is asserted; non-trivial = a determining set was solved and applied",
        "assumptions": [
            "the 'determining' class is a sufficient condition from calibration theory (SOL per port + through per pair; redundant double-reflect set for 16-term 2x2), not an exact identifiability test: sets in between are unasserted (the statement's own carve-out)",
            "unknown counts per type from the table in vnacal_new(3)",
        ],
        "expected_probes": ["insufficient_reported", "solve_after_failures"],
        "subchecks": [
            {"check": "C20", "what": "accumulate / solve histories", "quick": B(20000, 40), "thorough": B(250000, 500, 100)},
            {"check": "C20.cal.faulty", "what": "allocation failures inside add and solve", "quick": B(8000, 20), "thorough": B(80000, 200, 100)},
        ],
    },
    "C10": {
        "level": "exploration",
        "rule": "vector parameters with 1-16 knots built from constant / linear / first-order rational generating functions are created, "
                "queried (at knots, between, outside the range by >= 5%) in scheduler-chosen order, used as standards with the frequency "
                "vector set before or after them, and calibrations are applied between grid points and in different batch orders; "
                "non-trivial = at least one calibration applied; distinct = plan fingerprint",
        "assumptions": [
            "value at a knot must be bit-identical to the supplied value; between knots |value - g(f)| <= 1e-6 for >= 5 knots of a "
            "function the window can represent; any value must equal that of a fresh twin parameter (history independence)",
            "misses of the band between 0 and 5% are not asserted (internal slack); noise / sigma splines have no getter and are not decided",
        ],
        "expected_probes": ["knot_exact", "interp_ok", "history_independent", "range_refused", "apply_order_independent"],
        "subchecks": [
            {"check": "C10", "what": "interpolation and range histories", "quick": B(20000, 40), "thorough": B(250000, 500, 100)},
        ],
    },
    "C07": {
        "level": "exploration",
        "rule": "sessions produce real calibrations (all eight types, 1-3 ports) on one vnacal_t; a catalogue task edits the global and "
                "per-calibration property trees with the full descriptor grammar, sets precisions 1..40 and MAX, saves, restarts "
                "(vnacal_free, ledger must be empty, only the simulated disk survives) and loads; names, indices, types, dimensions, "
                "frequencies, z0, both property trees and the result of applying each calibration are compared with the state at save "
                "time; non-trivial = a file holding at least one calibration was loaded and compared; distinct = plan fingerprint",
        "assumptions": [
            "error terms are compared through vnacal_apply(_m) on a probe device: bit-exact when both precisions are MAX, "
            "100*10^(1-dprecision) + 10*10^(1-fprecision) otherwise; not compared below 5 digits",
            "a frequency precision that merges neighbouring calibration frequencies is not required to round-trip",
            "the legacy E12-only 2.x layout is not generated (the #VNACAL 3.0 first-line alias is)",
        ],
        "expected_probes": ["vsave_ok", "vload_ok", "vload_apply_exact", "vload_apply_close", "vnacal3_alias", "vnacal_property_tree_compared"],
        "subchecks": [
            {"check": "C07", "what": "clean configuration", "quick": B(20000, 50), "thorough": B(250000, 600, 100)},
            {"check": "C07.cal.faulty", "what": "allocation (libvna and libyaml), write, close, open and read faults in save and load",
             "quick": B(10000, 25), "thorough": B(100000, 250, 100)},
        ],
    },
    "C09": {
        "level": "fault_enumeration",
        "rule": "corpus files are written in the same run by the real savers (Touchstone 1 / 2, NPD with multi-form lists, .vnacal with "
                "1-2 calibrations and properties, YAML text). Enumerated per corpus file: truncation at every byte offset (the crash-"
                "during-in-place-save model), a read error at every byte offset, substitution of every byte by each of 12 characters. "
                "Seeded search: 1-5 simultaneous damages (bit flips, byte insert/delete, block zero/duplicate, line delete/duplicate, token "
                "swap, number perturbation, random bytes) under random read fragmentation / buffer sizes / read faults, and raw random "
                "bytes. evaluations = loads; non-trivial = runs that executed at least one damaged load; exhaustive refers to the three "
                "enumerated families per corpus file (the corpus itself is a seeded sample)",
        "assumptions": [
            "failure = failure value, errno != 0, at least one single-line callback of a category other than INTERNAL when a callback "
            "is installed, nothing left in the ledger; USAGE is tolerated as category (the statement's list is read as 'a non-zero documented errno')",
            "success = type/dimension rule holds, calibration frequencies strictly ascending, every value readable; objects with only "
            "finite values, >= 1 port and >= 1 frequency must survive save (NPD or vnacal, maximum precision) and re-load",
            "every load runs under a 10 s CPU timer (hang detection); uninitialised-value reads are covered only as far as ASan/UBSan see them",
        ],
        "expected_probes": ["rejected", "accepted", "accepted_roundtrip"],
        "subchecks": [
            {"check": "C09.corrupt.enum", "what": "enumerated truncation / read error / byte substitution", "quick": B(60, 60, 1), "thorough": B(3000, 900, 1)},
            {"check": "C09", "what": "seeded multi-fault damage and random bytes", "quick": B(12000, 45, 50), "thorough": B(1500000, 900, 200)},
        ],
    },
    "C12": {
        "level": "fault_enumeration",
        "rule": "scripts = short valid histories (no refused operations) generated by seed for the doc, array, array+files, cal and "
                "cal+store engines; each script is first run fault-free, counting the allocations made by libvna code (malloc, calloc, "
                "realloc, strdup, vasprintf; allocations inside libyaml are tagged and excluded) in every fault-armed library call; then "
                "the script is re-run from scratch once per allocation k with exactly that allocation failing. The failed call is "
                "re-issued without the fault and the complete event log (every later observation, model comparison and final digest) "
                "must equal the fault-free log. evaluations = faulted executions; non-trivial = executions in which the fault made the "
                "call fail; exhaustive = every allocation index of every script was failed (scripts above the cap are sampled and counted)",
        "assumptions": [
            "exhaustive per script, not over scripts: scripts are a seeded sample",
            "a call that fails under the fault and succeeds when re-issued must have reported ENOMEM; calls that fail anyway are not held to ENOMEM",
            "allocation failures inside libyaml are out of this property's scope (C03 exercises them)",
        ],
        "expected_probes": ["failed_by_fault", "reissued_after_fault_ok"],
        "subchecks": [
            {"check": "C12.doc", "mode": "enum", "what": "property trees incl. YAML export / import", "quick": B(60, 25, 1), "thorough": B(3000, 250, 1)},
            {"check": "C12.doc.insert", "mode": "enum", "what": "property trees, scripts rich in insert / append subscripts (the former known finding, repaired)",
             "quick": B(6, 10, 1), "thorough": B(200, 60, 1)},
            {"check": "C12.array", "mode": "enum", "what": "vnadata objects incl. conversions", "quick": B(120, 20, 1), "thorough": B(5000, 200, 1)},
            {"check": "C12.array.files", "mode": "enum", "what": "vnadata save / load", "quick": B(40, 25, 1), "thorough": B(2000, 250, 1)},
            {"check": "C12.doc.noretry", "mode": "enum", "what": "property trees: the failed call is NOT re-issued; the tree is re-read through the getters and used on", "quick": B(60, 20, 1), "thorough": B(3000, 200, 1)},
            {"check": "C12.array.noretry", "mode": "enum", "what": "vnadata objects: the failed call is NOT re-issued, the object is used on (model comparison, sanitizers)", "quick": B(80, 20, 1), "thorough": B(4000, 200, 1)},
            {"check": "C12.array.files.noretry", "mode": "enum", "what": "vnadata format / save / load: the failed call is NOT re-issued; later saves are read by the independent readers", "quick": B(60, 25, 1), "thorough": B(3000, 250, 1)},
            {"check": "C12.cal", "mode": "enum", "what": "parameters, sessions, solve, add_calibration, apply", "quick": B(40, 30, 1), "thorough": B(2000, 300, 1)},
            {"check": "C12.cal.store", "mode": "enum", "what": "vnacal save / load incl. properties", "quick": B(20, 30, 1), "thorough": B(1000, 300, 1)},
            {"check": "C12.chaos.noretry", "mode": "enum", "what": "chaos scripts, the failed call is NOT re-issued: later calls (solve again, save, free) meet whatever it left", "quick": B(40, 25, 1), "thorough": B(2500, 300, 1)},
            {"check": "C12.chaos", "mode": "enum", "what": "measurement-error model, tolerances, correlated / unknown parameters, rectangular and zero-frequency calibrations, "
                                                           "invalid-argument calls (chaos scripts without vnacal_t replacement)", "quick": B(40, 25, 1), "thorough": B(2500, 300, 1)},
        ],
    },
    "C14": {
        "level": "exploration",
        "rule": "trees built by seeded edit histories over a hard key/value alphabet, exported to the simulated disk, everything "
                "freed (restart), imported from file (random read fragmentation / stdio buffer) or from string; non-trivial when an "
                "imported tree with more than one node was compared with the model; distinct = distinct plan fingerprint",
        "assumptions": [
            "only valid UTF-8 keys and scalars (statement); import into a populated root is run for memory safety only",
            "libyaml is real code: a round-trip failure caused by libyaml's emitter/parser is still reported (the statement is about the API)",
        ],
        "expected_probes": ["export_ok", "import_ok"],
        "subchecks": [
            {"check": "C14", "what": "build / export / restart / import cycles, clean configuration",
             "quick": B(40000, 30), "thorough": B(1500000, 540, 500)},
            {"check": "C14.doc.faulty", "what": "allocation (libvna, libyaml), write, close and read faults inside export and import; "
             "a call that still reports success must have the fault-free effect, a failed one is repeated",
             "quick": B(20000, 20), "thorough": B(600000, 250, 500)},
        ],
    },
}


NOT_APPLICABLE = {
    "C01": "pure function of its inputs: quantifies over error networks, types, dimensions and entry points of one calibrate/apply computation; no history, schedule, fault or persistence enters the statement, so a simulator adds nothing beyond input generation (DESIGN.md section 2)",
    "C02": "pure numerical property of one vnacal_new_solve call (accuracy vs. tolerances, guesses, iteration limit); nothing for a scheduler or fault injector to decide (DESIGN.md section 2)",
    "C04": "each vnaconv_* function is a stateless formula of its arguments; aliasing is an argument relation, not a history (DESIGN.md section 2)",
    "C08": "the loaded object is a pure function of the file's bytes and the equivalences are between inputs; the file layer is simulated for C06/C07/C09/C14 where persistence and faults are in the statement (DESIGN.md section 2)",
    "C18": "acceptance rates under Gaussian noise are statistics over input distributions of a pure function; a noisy instrument in the simulator would be input generation under another name (DESIGN.md section 2)",
    "C19": "residual bounds and rank decisions of LU/QR are pure numerics of one call (DESIGN.md section 2)",
}

# properties the design claims but whose check is not built yet (listed as not claimed until then)
PLANNED = {
}

MANIFEST_TEXT = {
    "notes": "Technique: deterministic simulation with fault injection (one C++ simulator, vsim, linked against libvna objects "
             "compiled from /repo's working tree). libvna has no threads, clock or network: schedule = order of API operations of "
             "cooperating logical clients, faults = allocator / stream / storage faults, crash = restart with only the simulated disk "
             "surviving. See DESIGN.md. Known findings: known_findings.json (fixed entries suppress nothing).",
    "C13": {
        "level_text": "seeded exploration: every operation of every generated history is compared with an executable document model "
                      "(return value, errno class, complete tree through the public getters); evidence, not proof",
        "design_ref": "DESIGN.md section 5 C13",
        "level_note": "trusts DocModel (written from vnaproperty(3)) and the digest traversal; allocator ledger decides leaks; ASan/UBSan decide memory errors",
        "technique": "deterministic simulation: seeded operation histories vs. reference model, ledger + sanitizers, ddmin replay",
    },
    "C15": {
        "level_text": "seeded exploration: every getter of the touched objects is compared with an executable array model after every "
                      "operation of every generated history (clean and allocation-fault configurations); evidence, not proof",
        "design_ref": "DESIGN.md section 5 C15",
        "level_note": "trusts ArrayModel (written from vnadata(3)); ASan decides out-of-bounds accesses, the ledger decides leaks",
        "technique": "deterministic simulation: seeded operation histories vs. reference model, allocation-fault injection with re-issue",
    },
    "C05": {
        "level_text": "seeded exploration of conversion histories against a model that applies the documented vnaconv function with the "
                      "frequency's own impedances; in-place vs out-of-place, reuse of destinations, later resizes; evidence, not proof",
        "design_ref": "DESIGN.md section 5 C05",
        "level_note": "trusts vnaconv_* (C04 not claimed) and ArrayModel's own type-pair table",
        "technique": "deterministic simulation: seeded histories vs. reference model with differential conversion oracle",
    },
    "C06": {
        "level_text": "seeded exploration of save / restart / load histories on a simulated disk; what each written file denotes is "
                      "decided by independent format readers, what a load returns by the array model; evidence, not proof",
        "design_ref": "DESIGN.md section 5 C06",
        "level_note": "trusts the independent readers (sim/readers.h), ArrayModel and vnaconv_* for the expected parameter forms",
        "technique": "deterministic simulation: simulated disk + restart + stream faults, independent-reader and model oracles",
    },
    "C03": {
        "level_text": "seeded exploration of call sequences with valid, boundary and invalid arguments and injected faults under ASan + UBSan "
                      "with an allocation ledger; evidence, not proof",
        "design_ref": "DESIGN.md section 5 C03",
        "level_note": "memory safety is decided by the sanitizers on the executions explored; leaks by the ledger of library-domain allocations",
        "technique": "deterministic simulation: seeded API-call sequences over argument-validity classes with allocator / stream fault injection, sanitizer + ledger oracles",
    },
    "C11": {
        "level_text": "seeded exploration of failure-seeking histories: every call's return value, errno class, error-function invocations "
                      "and the state before/after a refused call are judged against the manual pages and the reference models; evidence, not proof",
        "design_ref": "DESIGN.md section 5 C11",
        "level_note": "which functions report is taken from the manual pages (assumptions in the evidence file); state equality through the public getters only",
        "technique": "deterministic simulation: invalid-argument and fault-seeking seeded histories vs. reference models, recorded error-callback history",
    },
    "C16": {
        "level_text": "seeded exploration of interleavings of logical clients on one vnacal_t against a table/handle model, the "
                      "VnaWorld truth and solo twins; evidence, not proof",
        "design_ref": "DESIGN.md section 5 C16",
        "level_note": "trusts VnaWorld and CalTableModel; schedule = order of API calls (libvna has no internal yield points)",
        "technique": "deterministic simulation: seeded scheduler over cooperating logical clients, reference model + differential solo twin",
    },
    "C17": {
        "level_text": "seeded exploration of pairs of equivalent descriptions of the same calibration, compared through their applied "
                      "S-parameters; evidence, not proof",
        "design_ref": "DESIGN.md section 5 C17",
        "level_note": "trusts VnaWorld for consistent data; differential oracle (no reference solver)",
        "technique": "deterministic simulation: twin sessions under scheduler-chosen orders and entry points",
    },
    "C20": {
        "level_text": "seeded exploration of accumulate/solve histories with an independent classification of each standard set; "
                      "evidence, not proof",
        "design_ref": "DESIGN.md section 5 C20",
        "level_note": "classification is sufficient-condition based (see evidence assumptions); allocation faults injected into solve attempts",
        "technique": "deterministic simulation: scheduler-chosen accumulation orders, repeated solve attempts, fault injection",
    },
    "C10": {
        "level_text": "seeded exploration of query/usage histories of interpolated quantities against generating functions, knot values "
                      "and fresh twins; evidence, not proof",
        "design_ref": "DESIGN.md section 5 C10",
        "level_note": "the interpolated values of the noise splines are not observable through the API and not decided; sigma splines are decided at the supplied frequencies (twin solved one frequency at a time)",
        "technique": "deterministic simulation: history-dependence probes with fresh twins, range-violation injection",
    },
    "C07": {
        "level_text": "seeded exploration of save / restart / load histories of whole calibration catalogues on a simulated disk, with "
                      "and without injected faults; evidence, not proof",
        "design_ref": "DESIGN.md section 5 C07",
        "level_note": "trusts VnaWorld (to obtain real calibrations), DocModel and the apply-based comparison of error terms",
        "technique": "deterministic simulation: simulated disk + restart + stream/allocation faults, model equality after reload",
    },
    "C09": {
        "level_text": "exhaustive enumeration of three single-fault families (truncation, read error, byte substitution at every offset) "
                      "per corpus file plus seeded multi-fault search; the corpus files are a seeded sample",
        "design_ref": "DESIGN.md section 5 C09",
        "level_note": "storage faults applied on the simulated disk between save and load, stream faults through the cookie streams; "
                      "oracle = clean failure or self-consistent, re-savable object; ledger and sanitizers for memory",
        "technique": "deterministic simulation: storage/stream fault enumeration between save and load + seeded corruption search",
    },
    "C12": {
        "level_text": "exhaustive single-allocation-failure enumeration per script: every allocation libvna makes in a script is failed "
                      "once and the outcome compared with the fault-free run; the scripts themselves are a seeded sample",
        "design_ref": "DESIGN.md section 5 C12",
        "level_note": "allocator seam = link-time --wrap with domain tagging; oracle = event-log equality with the fault-free run after "
                      "re-issuing the failed call, ledger empty at the end, sanitizers",
        "technique": "deterministic simulation: exhaustive allocation-fault enumeration with re-issue and event-log equality",
    },
    "C14": {
        "level_text": "seeded exploration of build/export/restart/import cycles over a hard key/value alphabet on a simulated disk with "
                      "random read fragmentation; model equality after import; evidence, not proof",
        "design_ref": "DESIGN.md section 5 C14",
        "level_note": "trusts DocModel; libyaml runs as real code; only valid UTF-8 text is generated",
        "technique": "deterministic simulation: simulated disk + restart, reference-model equality after re-import",
    },
}
